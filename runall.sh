#!/bin/bash
# runall.sh [tier] [budget] — run every registered check, one line each
TIER=${1:-quick}; B=${2:-}
for p in $(python3 -c "import json;print(' '.join(c['property_id'] for c in json.load(open('/verif/MANIFEST.json'))['checks']))"); do
  out=$(/verif/bin/vcheck $p --tier $TIER ${B:+--budget $B} 2>&1); e=$?
  echo "$p exit=$e | $(echo "$out" | grep -a "^$p \|VIOLATION\|KNOWN-FINDING" | cut -c1-220 | tr '\n' '|')"
done
