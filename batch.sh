#!/bin/bash
# batch.sh <scenario> <from> <to> [tier] — dev helper: run seeds in parallel, summarise
B=$(/verif/build.sh) || exit 2
SC=$1; FROM=$2; TO=$3; TIER=${4:-quick}
rm -rf /dev/shm/out/$SC; mkdir -p /dev/shm/out/$SC
run(){ s=$1; SIMRT=1 GOMAXPROCS=1 GOGC=off SIM_TIER=$TIER SIM_SCENARIO=$SC SIM_SEED=$s SIM_OUT=/dev/shm/out/$SC/$s.json timeout 300 $B/sim.test -test.run '^TestSim$' > /dev/shm/out/$SC/$s.log 2>&1; e=$?; [ $e -ne 0 ] && echo "seed $s exit=$e"; }
export -f run; export B SC TIER
seq $FROM $TO | xargs -P 16 -I{} bash -c "run {}" | head -20
python3 /verif/tools_summary.py "/dev/shm/out/$SC/*.json"
