#!/bin/bash
# dettest.sh <scenario> <from> <to> — determinism self-test: every seed is run three ways
# (generated plan; generated plan + plan written out; replayed from the written plan file)
# in fresh processes under 16-way load; all three trace hashes must agree.
B=$(/verif/build.sh) || exit 2
SC=$1; FROM=$2; TO=$3
D=/dev/shm/det-$SC; rm -rf $D; mkdir -p $D
one(){ s=$1; D=/dev/shm/det-$SC
 h(){ env "$@" SIMRT=1 GOMAXPROCS=1 GOGC=off SIM_SCENARIO=$SC SIM_SEED=$s timeout 300 $B/sim.test -test.run '^TestSim$' 2>/dev/null | python3 -c "import sys,json
try:
  r=json.load(sys.stdin); print(r['trace_hash'], r['events'], r['sched_draws'])
except Exception: print('CRASH')"; }
 a=$(h X=1); b=$(h SIM_PLAN_OUT=$D/$s.plan); c=$(env -u SIM_SCENARIO SIM_PLAN=$D/$s.plan SIMRT=1 GOMAXPROCS=1 GOGC=off timeout 300 $B/sim.test -test.run '^TestSim$' 2>/dev/null | python3 -c "import sys,json
try:
  r=json.load(sys.stdin); print(r['trace_hash'], r['events'], r['sched_draws'])
except Exception: print('CRASH')")
 if [ "$a" = "$b" ] && [ "$b" = "$c" ]; then echo "same"; else echo "DIFF seed=$s | $a | $b | $c"; fi; }
export -f one; export B SC
seq $FROM $TO | xargs -P 16 -I{} bash -c "one {}" | sort | uniq -c | sort -rn | head -20
rm -rf $D
