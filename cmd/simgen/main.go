// simgen prepares the simulation build of /repo's *current working tree* without touching it:
// it writes rewritten copies of the source files that need a seam plus an overlay.json for
// `go build -overlay`, a go.mod/go.sum pair for `-modfile`, and maps the harness packages
// (/verif/sim/pkg/*) into the rain module as virtual directories /repo/internal/zzsim/*.
//
// Rewrites (type-directed, via go/packages):
//   - import "net"  -> internal/zzsim/simnet  in every non-test file of the packages the
//     simulation links (aliases for everything except the socket/DNS entry points)
//   - import "os" / "path/filepath" -> simos / simfilepath in the files that touch torrent data
//   - `for k, v := range m` over a map -> iteration over simrt.Keys(m) (seeded, address-free order)
//   - `m[k] = v` with pointer/interface/chan keys -> m[simrt.Touch(k)] = v
//   - filestorage_linux.go replaced by a portable no-op (fadvise/O_NOATIME on a fake fd)
//
// Any construct it cannot rewrite soundly is a hard error (exit 2), never silently skipped.
package main

import (
	"bytes"
	"encoding/json"
	"flag"
	"fmt"
	"go/ast"
	"go/format"
	"go/token"
	"go/types"
	"os"
	"path/filepath"
	"sort"
	"strconv"
	"strings"

	"golang.org/x/tools/go/ast/astutil"
	"golang.org/x/tools/go/packages"
)

const modPath = "github.com/cenkalti/rain/v2"

var (
	repo   = flag.String("repo", "/repo", "repository root")
	verif  = flag.String("verif", "/verif", "verif root")
	out    = flag.String("out", "", "build directory")
	goroot = flag.String("goroot", "/opt/veriftools/go1.26.8", "GOROOT of the simulation toolchain")
	report = flag.Bool("report", false, "print rewrite statistics")
)

// files (relative to repo) whose "os" / "path/filepath" imports are redirected to the simulated disk
var osFiles = map[string]bool{
	"internal/storage/filestorage/filestorage.go": true,
	"torrent/session.go":                          true,
	"torrent/session_torrent.go":                  true,
	"torrent/session_move_torrent.go":             true,
	"internal/metainfo/info.go":                   true,
}

// packages (relative import paths) that are not part of the simulation build
var skipPkgs = map[string]bool{
	"internal/trackertest": true,
	"internal/command":     true,
	"internal/console":     true,
	"":                     true, // main
}

func fatal(f string, a ...any) {
	fmt.Fprintf(os.Stderr, "simgen: "+f+"\n", a...)
	os.Exit(2)
}

type stats struct {
	NetFiles, OsFiles, Ranges, Touches, Yields int
	KeyTypes                           map[string]int
}

func main() {
	flag.Parse()
	if *out == "" {
		fatal("-out required")
	}
	must(os.MkdirAll(filepath.Join(*out, "src"), 0o755))
	// go/packages runs "go" from PATH: make it the simulation toolchain.
	os.Setenv("PATH", filepath.Join(*goroot, "bin")+":"+os.Getenv("PATH"))
	os.Setenv("GOTOOLCHAIN", "local")
	os.Setenv("GOFLAGS", "-mod=mod")
	os.Setenv("GOPROXY", "off")
	overlay := map[string]string{}
	st := &stats{KeyTypes: map[string]int{}}

	// 1. patched GOROOT files (produced by setup.sh)
	rt := filepath.Join(*verif, ".build", "rt")
	lst, err := os.ReadFile(filepath.Join(rt, "files.txt"))
	if err != nil {
		fatal("patched GOROOT file list missing (run setup): %v", err)
	}
	for _, ln := range strings.Split(strings.TrimSpace(string(lst)), "\n") {
		f := strings.Fields(ln)
		if len(f) != 2 {
			fatal("bad line in files.txt: %q", ln)
		}
		p := filepath.Join(rt, f[1])
		if _, err := os.Stat(p); err != nil {
			fatal("patched file missing: %s (run setup)", p)
		}
		overlay[filepath.Join(*goroot, f[0])] = p
	}

	// 2. virtual harness packages
	pkgRoot := filepath.Join(*verif, "sim", "pkg")
	must(filepath.Walk(pkgRoot, func(p string, fi os.FileInfo, err error) error {
		if err != nil {
			return err
		}
		if fi.IsDir() || !strings.HasSuffix(p, ".go") {
			return nil
		}
		rel, _ := filepath.Rel(pkgRoot, p)
		overlay[filepath.Join(*repo, "internal", "zzsim", rel)] = p
		return nil
	}))

	// 3. load and rewrite the repo
	cfg := &packages.Config{
		Mode: packages.NeedName | packages.NeedFiles | packages.NeedCompiledGoFiles | packages.NeedSyntax | packages.NeedTypes | packages.NeedTypesInfo | packages.NeedImports | packages.NeedDeps,
		Dir:  *repo,
		Env:  append(os.Environ(), "GOFLAGS=-mod=mod", "GOPROXY=off", "GOTOOLCHAIN=local", "PATH="+filepath.Join(*goroot, "bin")+":"+os.Getenv("PATH")),
	}
	var pkgs []*packages.Package
	pkgs, err = packages.Load(cfg, "./...")
	if err != nil {
		fatal("load: %v", err)
	}
	nerr := 0
	for _, p := range pkgs {
		for _, e := range p.Errors {
			fmt.Fprintf(os.Stderr, "simgen: %s: %v\n", p.PkgPath, e)
			nerr++
		}
	}
	if nerr > 0 {
		fatal("repository does not type-check (%d errors)", nerr)
	}
	sort.Slice(pkgs, func(i, j int) bool { return pkgs[i].PkgPath < pkgs[j].PkgPath })
	for _, p := range pkgs {
		relPkg := strings.TrimPrefix(strings.TrimPrefix(p.PkgPath, modPath), "/")
		if skipPkgs[relPkg] || strings.HasPrefix(relPkg, "internal/zzsim") {
			continue
		}
		for i, file := range p.Syntax {
			fn := p.CompiledGoFiles[i]
			rel, _ := filepath.Rel(*repo, fn)
			if strings.HasSuffix(fn, "_test.go") {
				continue
			}
			changed := rewriteFile(p, file, rel, st)
			if !changed {
				continue
			}
			var buf bytes.Buffer
			if err := format.Node(&buf, p.Fset, file); err != nil {
				fatal("format %s: %v", rel, err)
			}
			dst := filepath.Join(*out, "src", strings.ReplaceAll(rel, "/", "__"))
			must(os.WriteFile(dst, buf.Bytes(), 0o644))
			overlay[fn] = dst
		}
	}

	// 4. filestorage_linux.go -> portable no-op
	stub := filepath.Join(*out, "src", "filestorage_linux_stub.go")
	must(os.WriteFile(stub, []byte(`package filestorage

import "github.com/cenkalti/rain/v2/internal/zzsim/simos"

func disableReadAhead(f *simos.File) error { return nil }

func applyNoAtimeFlag(f int) int { return f }
`), 0o644))
	lin := filepath.Join(*repo, "internal/storage/filestorage/filestorage_linux.go")
	if _, err := os.Stat(lin); err != nil {
		fatal("expected %s to exist", lin)
	}
	overlay[lin] = stub

	// 5. go.mod / go.sum
	gomod, err := os.ReadFile(filepath.Join(*repo, "go.mod"))
	must(err)
	gomod = append(gomod, []byte(fmt.Sprintf("\nrequire github.com/anishathalye/porcupine v1.3.0\n\nreplace github.com/nictuku/dht => %s\n\nreplace github.com/rcrowley/go-metrics => %s\n",
		filepath.Join(*verif, "sim/stubs/dht"), filepath.Join(*verif, "sim/stubs/go-metrics")))...)
	must(os.WriteFile(filepath.Join(*out, "go.mod"), gomod, 0o644))
	gosum, err := os.ReadFile(filepath.Join(*repo, "go.sum"))
	must(err)
	extra, _ := os.ReadFile(filepath.Join(*verif, "sim", "extra.go.sum"))
	must(os.WriteFile(filepath.Join(*out, "go.sum"), append(gosum, extra...), 0o644))

	b, _ := json.MarshalIndent(map[string]any{"Replace": overlay}, "", " ")
	must(os.WriteFile(filepath.Join(*out, "overlay.json"), b, 0o644))
	sb, _ := json.MarshalIndent(st, "", " ")
	must(os.WriteFile(filepath.Join(*out, "simgen-stats.json"), sb, 0o644))
	if *report {
		fmt.Println(string(sb))
	}
}

func must(err error) {
	if err != nil {
		fatal("%v", err)
	}
}

func importsPath(f *ast.File, path string) *ast.ImportSpec {
	for _, im := range f.Imports {
		if p, _ := strconv.Unquote(im.Path.Value); p == path {
			return im
		}
	}
	return nil
}

func redirectImport(f *ast.File, from, to, defName string) bool {
	im := importsPath(f, from)
	if im == nil {
		return false
	}
	if im.Name != nil && (im.Name.Name == "_" || im.Name.Name == ".") {
		fatal("unsupported import form of %s", from)
	}
	if im.Name == nil {
		im.Name = ast.NewIdent(defName)
	}
	im.Path.Value = strconv.Quote(to)
	return true
}

func isMap(t types.Type) (*types.Map, bool) {
	if t == nil {
		return nil, false
	}
	m, ok := t.Underlying().(*types.Map)
	return m, ok
}

func ptrLikeKey(t types.Type) bool {
	switch u := t.Underlying().(type) {
	case *types.Pointer, *types.Chan, *types.Signature, *types.Map:
		return true
	case *types.Interface:
		_ = u
		return true
	}
	return false
}

// keySupported reports whether simrt.Keys can order keys of this type deterministically.
func keySupported(t types.Type) bool {
	switch u := t.Underlying().(type) {
	case *types.Basic:
		return u.Info()&(types.IsInteger|types.IsString|types.IsBoolean) != 0
	case *types.Pointer, *types.Chan, *types.Interface:
		return true
	case *types.Array:
		b, ok := u.Elem().Underlying().(*types.Basic)
		return ok && b.Kind() == types.Uint8
	case *types.Struct:
		for i := 0; i < u.NumFields(); i++ {
			ft := u.Field(i).Type()
			if b, ok := ft.Underlying().(*types.Basic); ok && b.Info()&(types.IsInteger|types.IsString|types.IsBoolean) != 0 {
				continue
			}
			if keySupportedPlain(ft) {
				continue
			}
			return false
		}
		return true
	}
	return false
}

func keySupportedPlain(t types.Type) bool {
	switch u := t.Underlying().(type) {
	case *types.Basic:
		return u.Info()&(types.IsInteger|types.IsString|types.IsBoolean) != 0
	case *types.Array:
		return keySupportedPlain(u.Elem())
	}
	return false
}

func pureExpr(e ast.Expr) bool {
	switch x := e.(type) {
	case *ast.Ident:
		return true
	case *ast.SelectorExpr:
		return pureExpr(x.X)
	case *ast.ParenExpr:
		return pureExpr(x.X)
	case *ast.StarExpr:
		return pureExpr(x.X)
	case *ast.IndexExpr:
		return pureExpr(x.X) && pureExpr(x.Index)
	case *ast.BasicLit:
		return true
	}
	return false
}

func rewriteFile(p *packages.Package, f *ast.File, rel string, st *stats) bool {
	changed := false
	if redirectImport(f, "net", modPath+"/internal/zzsim/simnet", "net") {
		changed = true
		st.NetFiles++
	}
	if osFiles[rel] {
		a := redirectImport(f, "os", modPath+"/internal/zzsim/simos", "os")
		b := redirectImport(f, "path/filepath", modPath+"/internal/zzsim/simfilepath", "filepath")
		if a || b {
			changed = true
			st.OsFiles++
		}
	}
	needSimrt := false
	pos := func(n ast.Node) string { return p.Fset.Position(n.Pos()).String() }
	n := 0
	astutil.Apply(f, func(c *astutil.Cursor) bool {
		switch s := c.Node().(type) {
		case *ast.RangeStmt:
			m, ok := isMap(p.TypesInfo.TypeOf(s.X))
			if !ok {
				return true
			}
			if !keySupported(m.Key()) {
				fatal("%s: range over map with unsupported key type %s", pos(s), m.Key())
			}
			if !pureExpr(s.X) {
				fatal("%s: range over impure map expression", pos(s))
			}
			st.KeyTypes[types.TypeString(m.Key(), func(p *types.Package) string { return p.Name() })]++
			n++
			keyVar := fmt.Sprintf("zzk%d", n)
			var keyIdent ast.Expr
			hasKey := s.Key != nil && !isBlank(s.Key)
			hasVal := s.Value != nil && !isBlank(s.Value)
			tok := s.Tok
			if tok == token.ILLEGAL {
				tok = token.DEFINE
			}
			var pre []ast.Stmt
			okVar := ast.NewIdent(fmt.Sprintf("zzok%d", n))
			kref := func() ast.Expr { return ast.NewIdent(keyVar) }
			idx := func() ast.Expr { return &ast.IndexExpr{X: s.X, Index: kref()} }
			if hasVal {
				if tok == token.DEFINE {
					pre = append(pre, &ast.AssignStmt{Lhs: []ast.Expr{s.Value, okVar}, Tok: token.DEFINE, Rhs: []ast.Expr{idx()}})
				} else {
					// v, ok = m[k] with a fresh ok
					pre = append(pre, &ast.DeclStmt{Decl: &ast.GenDecl{Tok: token.VAR, Specs: []ast.Spec{&ast.ValueSpec{Names: []*ast.Ident{okVar}, Type: ast.NewIdent("bool")}}}})
					pre = append(pre, &ast.AssignStmt{Lhs: []ast.Expr{s.Value, okVar}, Tok: token.ASSIGN, Rhs: []ast.Expr{idx()}})
				}
				pre = append(pre, &ast.IfStmt{Cond: &ast.UnaryExpr{Op: token.NOT, X: okVar}, Body: &ast.BlockStmt{List: []ast.Stmt{&ast.BranchStmt{Tok: token.CONTINUE}}}})
			} else {
				pre = append(pre, &ast.IfStmt{
					Init: &ast.AssignStmt{Lhs: []ast.Expr{ast.NewIdent("_"), okVar}, Tok: token.DEFINE, Rhs: []ast.Expr{idx()}},
					Cond: &ast.UnaryExpr{Op: token.NOT, X: okVar},
					Body: &ast.BlockStmt{List: []ast.Stmt{&ast.BranchStmt{Tok: token.CONTINUE}}},
				})
			}
			if hasKey {
				if tok == token.DEFINE {
					pre = append([]ast.Stmt{&ast.AssignStmt{Lhs: []ast.Expr{s.Key}, Tok: token.DEFINE, Rhs: []ast.Expr{kref()}}}, pre...)
					// silence "declared and not used" if the body never reads it
					pre = append(pre, &ast.AssignStmt{Lhs: []ast.Expr{ast.NewIdent("_")}, Tok: token.ASSIGN, Rhs: []ast.Expr{s.Key}})
				} else {
					pre = append([]ast.Stmt{&ast.AssignStmt{Lhs: []ast.Expr{s.Key}, Tok: token.ASSIGN, Rhs: []ast.Expr{kref()}}}, pre...)
				}
			}
			keyIdent = ast.NewIdent(keyVar)
			s.Key = ast.NewIdent("_")
			s.Value = keyIdent
			s.Tok = token.DEFINE
			s.X = &ast.CallExpr{Fun: &ast.SelectorExpr{X: ast.NewIdent("zzsimrt"), Sel: ast.NewIdent("Keys")}, Args: []ast.Expr{s.X}}
			s.Body.List = append(pre, s.Body.List...)
			needSimrt = true
			st.Ranges++
		case *ast.ReturnStmt:
			// a database transaction is a lock acquisition too (see the mutex case below)
			if c.Index() >= 0 && len(s.Results) == 1 && isBoltTx(p, s.Results[0]) {
				c.InsertBefore(&ast.ExprStmt{X: &ast.CallExpr{Fun: &ast.SelectorExpr{X: ast.NewIdent("zzsimrt"), Sel: ast.NewIdent("YieldTx")}}})
				needSimrt = true
				st.Yields++
			}
		case *ast.ExprStmt:
			// a seeded yield point before every mutex acquisition (no preemption in the
			// simulated runtime: without it a goroutine runs from one blocking point to the next)
			call, ok := s.X.(*ast.CallExpr)
			if !ok || c.Index() < 0 {
				return true
			}
			if isBoltTx(p, call) {
				c.InsertBefore(&ast.ExprStmt{X: &ast.CallExpr{Fun: &ast.SelectorExpr{X: ast.NewIdent("zzsimrt"), Sel: ast.NewIdent("YieldTx")}}})
				needSimrt = true
				st.Yields++
				return true
			}
			sel, ok := call.Fun.(*ast.SelectorExpr)
			if !ok || (sel.Sel.Name != "Lock" && sel.Sel.Name != "RLock") {
				return true
			}
			if so := p.TypesInfo.Selections[sel]; so != nil {
				if fn, ok := so.Obj().(*types.Func); ok {
					switch fn.FullName() {
					case "(*sync.Mutex).Lock", "(*sync.RWMutex).Lock", "(*sync.RWMutex).RLock":
						c.InsertBefore(&ast.ExprStmt{X: &ast.CallExpr{Fun: &ast.SelectorExpr{X: ast.NewIdent("zzsimrt"), Sel: ast.NewIdent("Yield")}}})
						needSimrt = true
						st.Yields++
					}
				}
			}
		case *ast.AssignStmt:
			if c.Index() >= 0 && len(s.Rhs) == 1 && isBoltTx(p, s.Rhs[0]) {
				c.InsertBefore(&ast.ExprStmt{X: &ast.CallExpr{Fun: &ast.SelectorExpr{X: ast.NewIdent("zzsimrt"), Sel: ast.NewIdent("YieldTx")}}})
				needSimrt = true
				st.Yields++
			}
			for _, lhs := range s.Lhs {
				if touchIndex(p, lhs) {
					needSimrt = true
					st.Touches++
				}
			}
		case *ast.IncDecStmt:
			if touchIndex(p, s.X) {
				needSimrt = true
				st.Touches++
			}
		case *ast.CompositeLit:
			if m, ok := isMap(p.TypesInfo.TypeOf(s)); ok && ptrLikeKey(m.Key()) && len(s.Elts) > 1 {
				fatal("%s: map literal with pointer-like keys and >1 element", pos(s))
			}
		}
		return true
	}, nil)
	if needSimrt {
		astutil.AddNamedImport(p.Fset, f, "zzsimrt", modPath+"/internal/zzsim/simrt")
		changed = true
	}
	return changed
}

func isBlank(e ast.Expr) bool {
	id, ok := e.(*ast.Ident)
	return ok && id.Name == "_"
}

func touchIndex(p *packages.Package, lhs ast.Expr) bool {
	ix, ok := lhs.(*ast.IndexExpr)
	if !ok {
		return false
	}
	m, ok := isMap(p.TypesInfo.TypeOf(ix.X))
	if !ok || !ptrLikeKey(m.Key()) {
		return false
	}
	if call, ok := ix.Index.(*ast.CallExpr); ok {
		if sel, ok := call.Fun.(*ast.SelectorExpr); ok {
			if id, ok := sel.X.(*ast.Ident); ok && id.Name == "zzsimrt" {
				return false
			}
		}
	}
	ix.Index = &ast.CallExpr{Fun: &ast.SelectorExpr{X: ast.NewIdent("zzsimrt"), Sel: ast.NewIdent("Touch")}, Args: []ast.Expr{ix.Index}}
	return true
}

// isBoltTx: e is a call of (*bbolt.DB).Update / View / Batch / Begin.
func isBoltTx(p *packages.Package, e ast.Expr) bool {
	call, ok := e.(*ast.CallExpr)
	if !ok {
		return false
	}
	sel, ok := call.Fun.(*ast.SelectorExpr)
	if !ok {
		return false
	}
	so := p.TypesInfo.Selections[sel]
	if so == nil {
		return false
	}
	fn, ok := so.Obj().(*types.Func)
	if !ok {
		return false
	}
	switch fn.FullName() {
	case "(*go.etcd.io/bbolt.DB).Update", "(*go.etcd.io/bbolt.DB).View", "(*go.etcd.io/bbolt.DB).Batch", "(*go.etcd.io/bbolt.DB).Begin":
		return true
	}
	return false
}
