// vcheck runs the deterministic-simulation check of one property:
//
//	vcheck C10 --tier quick|thorough [--seed N] [--budget 90s] [--runs N]
//	vcheck --replay <file>            re-execute a replay file, print its log
//
// Exit 0: property held on everything explored (KNOWN-FINDING lines allowed);
// exit 1: "VIOLATION property=<id> replay=<path>" printed; exit 2: harness/build trouble.
package main

import (
	"sync/atomic"
	"bytes"
	"crypto/sha256"
	"encoding/hex"
	"encoding/json"
	"flag"
	"fmt"
	"os"
	"os/exec"
	"path/filepath"
	"regexp"
	"sort"
	"strconv"
	"strings"
	"sync"
	"time"
)

const V = "/verif"

type Violation struct {
	Property string `json:"property"`
	Oracle   string `json:"oracle"`
	Detail   string `json:"detail"`
	At       string `json:"at"`
	Seq      uint64 `json:"seq"`
}

type Result struct {
	Scenario   string           `json:"scenario"`
	Seed       uint64           `json:"seed"`
	PlanHash   string           `json:"plan_hash"`
	TraceHash  string           `json:"trace_hash"`
	SimTime    float64          `json:"sim_seconds"`
	Events     uint64           `json:"events"`
	SchedDraws uint64           `json:"sched_draws"`
	Violations []Violation      `json:"violations"`
	Counters   map[string]int64 `json:"counters"`
	Stats      map[string]any   `json:"stats"`
	NonTrivial bool             `json:"nontrivial"`
	Signature  string           `json:"signature"`
	HarnessErr string           `json:"harness_error"`
	LogTail    []string         `json:"log_tail"`
}

// runOutcome is one executed simulation process.
type runOutcome struct {
	Scenario string
	Seed     uint64
	PlanFile string
	Res      *Result
	Kind     string // ok, violation, crash, hang, harness
	Viol     *Violation
	Stderr   string
	Wall     time.Duration
}

type scenarioRef struct {
	Name   string
	Weight int
}

type propCfg struct {
	Scenarios []scenarioRef
	// OwnsCrash: a crash/hang of rain in these scenarios is a violation of this property.
	OwnsCrash   bool
	Level       string
	Rule        string
	Assumptions []string
	QuickBudget time.Duration
	ThorBudget  time.Duration
	Race        bool
	// ExtraEnv is added to every run's environment; RunTimeout replaces the 240 s wall-clock
	// watchdog (short for worlds whose failure mode is an endless loop).
	ExtraEnv   []string
	RunTimeout time.Duration
	// Also: "<property>/<oracle>" signatures that count as violations of this property too.
	Also []string
}

var commonAssumptions = []string{
	"scheduler: go1.26.8 runtime patched at build time (-overlay): one goroutine at a time, switches only at blocking points, every choice from the run seed",
	"clock: testing/synctest fake time; network: simnet (in-memory TCP/UDP/DNS); disk: simfs (in-memory, durability model); resume DB: real bbolt on /dev/shm, commit atomic w.r.t. simulated crash points",
	"real code: all of rain's torrent/ and internal/ packages incl. filestorage, mse, trackers, resumer+bbolt, net/http; stubs: DHT node (recording stub), console/CLI not exercised",
	"remote peers, trackers and web seeds are scripted actors written from the BEPs (refbt), independent of rain's codec",
}

var props = map[string]*propCfg{}

func init() {
	props["C10"] = &propCfg{Scenarios: []scenarioRef{{"transfer_clean", 2}, {"transfer_byz", 3}, {"picker", 2}}, Level: "exploration",
		Rule: "plans (layout, knobs, actors, fault steps) generated from the seed; a run is non-trivial if at least one piece write reached the simulated disk; distinct = distinct event-trace hashes among non-trivial runs"}
	props["C08"] = &propCfg{Scenarios: []scenarioRef{{"hostile", 3}, {"transfer_byz", 1}, {"seeding", 1}}, OwnsCrash: true, Level: "exploration",
		Rule: "1-4 scripted attackers (oversize frame headers without body, raw garbage, truncated frames, well-formed messages with arbitrary field values in arbitrary order incl. hostile extension handshakes / ut_metadata / PEX) connect and re-connect to a real session in every state (metadata unknown via magnet, allocating/verifying with slow disk, downloading, seeding, stop/start) while an honest re-dialling seed transfers; oracles: no crash or hang of the process, oversize header dropped without waiting for (or allocating) the body, honest transfer completes; non-trivial if a piece was written or the torrent was pre-seeded; distinct = distinct event-trace hashes among non-trivial runs"}
	props["C13"] = &propCfg{Scenarios: []scenarioRef{{"magnet", 3}, {"transfer_byz", 1}}, Level: "exploration",
		Rule: "magnet starts (hex/base32 hash, display names needing escaping, tracker tiers, x.pe peers) with 2-6 scripted peers serving ut_metadata honestly or with lies (size over the limit / huge / wrong / omitted, wrong bytes, wrong piece size, duplicates, unrequested pieces, garbage, rejects, silence), multi-piece metadata, small MaxMetadataSize; oracles: adopted metadata hashes to the link's info-hash (own bdecoder on Torrent()), no request to a peer announcing more than the limit, fetch and download complete with an honest peer, exported link parses back (own parser) to hash/name/tiers-as-sets/peers; non-trivial if a piece was written; distinct = distinct event-trace hashes among non-trivial runs"}
	props["C18"] = &propCfg{Scenarios: []scenarioRef{{"blocklist", 1}}, OwnsCrash: true, Level: "exploration",
		Rule: "a real session with a blocklist fetched (and re-fetched every 20 s) from a scripted HTTP server whose list changes in stages (overlapping, nested, /0../32, comments, malformed lines, refused lists), trackers (HTTP+UDP) at addresses that become blocked, and 3-10 candidate peers offered through tracker replies, PEX, DHT-stub injection, manual adds and incoming connections, incl. the client's own address, port 0 and a corrupting peer; the download can never finish so the client keeps dialling; oracles over the transport log against a linear scan of the list(s) possibly in effect; non-trivial if a handshake completed or more than two dials happened; distinct = distinct event-trace hashes among non-trivial runs"}
	props["C19"] = &propCfg{Scenarios: []scenarioRef{{"private", 1}}, Level: "exploration",
		Rule: "same world with the private key encoded as i1e / 1:1 / i2e / i-1e / 3:yes / le / de / 1:0 / i0e / 0: / absent, DHT stub and PEX enabled or not, configured private peer-id prefix / client version / user agent, .torrent or magnet start; the client's own classification (Stats().Private) selects the private oracles: no DHT call for the info-hash, no AddNode from port messages, DHT/PEX-only addresses never dialled nor stored, no PEX sent, Magnet() refused, private metadata from a magnet refused with nothing allocated, identity strings as configured; non-trivial if a handshake completed or more than two dials happened; distinct = distinct event-trace hashes among non-trivial runs"}
	props["C14"] = &propCfg{Scenarios: []scenarioRef{{"registry", 1}}, OwnsCrash: true, Level: "exploration",
		Rule: "1-4 concurrent API clients add (valid/invalid .torrent, magnet, explicit colliding ids), remove, start, stop, add trackers, list and get torrents in one real session with 2-5 ports, with seeded yields before every mutex acquisition in rain; per phase the recorded invoke/return history is checked with porcupine against a sequential registry model (unique ids, distinct ports, capacity), then quiescent invariants (ids unique, ports distinct and in range, free+owned=range, session == resume DB buckets), CompactDatabase + reopen of the compacted file, Close + NewSession on the same DB with field-by-field comparison, and a resumer Write/Read round trip of 20 generated records; non-trivial always (each run executes >=3 operations and a restart); distinct = distinct event-trace hashes"}
	props["C17"] = &propCfg{Scenarios: []scenarioRef{{"limits", 3}, {"transfer_byz", 1}}, OwnsCrash: true, Level: "exploration",
		Rule: "a real session with generated small limits (dial/accept 1-4, addresses 2-20, web seed sources 1-3 / downloads 1-2, write cache 1-4 pieces, read cache 64K-1M, rate limits 8-256 KiB/s, requests in 1-20) under a swarm of 3-9 scripted peers (seeding, leeching, redialling, disconnecting), 0-5 web seeds, bad-handshake actors (silent, garbage, wrong info-hash, dribbling, closing), bursts of bogus addresses and a request flooder that stops reading; every 200 ms the monitor compares transport-level open connections per direction, concurrent web seed requests, contacted web seed sources, Stats()/SessionStats counters and every window of cumulative bytes against the configured limits; failed handshakes must be closed by the SUT; at the end the torrent is stopped and removed and every reservation must be back; non-trivial if a piece write happened or the SUT was pre-seeded; distinct = distinct event-trace hashes"}
	props["C20"] = &propCfg{Scenarios: []scenarioRef{{"apistress", 4}, {"lifecycle", 1}, {"registry", 1}, {"transfer_byz", 1}, {"crash", 1}}, OwnsCrash: true, Level: "exploration", Race: true, QuickBudget: 150 * time.Second,
		Rule: "the simulator is built with the Go race detector (-race); 2-5 concurrent clients use the public API (Stats, Peers, Trackers, Webseeds, Files, FileStats, Magnet, Torrent, Port/Name, AddPeer by IP and by host name, AddTracker, Announce, Start, Stop, Verify, AddTorrent+RemoveTorrent of a second torrent, ListTorrents, CompactDatabase, CleanDatabase, StartAll) and the RPC client (rainrpc over the simulated network) with seeded gaps while the torrent downloads from / uploads to scripted peers and web seeds and the session writes resume data every 0.2-3 s; every race report whose accesses are not both inside the simulator's own packages is a violation keyed by the two innermost function pairs; a call that has not returned for two simulated minutes, rain's own 'torrent does not respond' health check and any other crash are violations; non-trivial if a piece write happened; distinct = distinct event-trace hashes"}
	props["C12"] = &propCfg{Scenarios: []scenarioRef{{"mse", 3}, {"pair", 2}, {"encpolicy", 2}}, OwnsCrash: true, Level: "exploration",
		Rule: "(a) both ends of rain's mse.Stream over a simulated connection that fragments, delays and short-reads: offered ciphers 1/2/3, acceptor policies (RC4 first, plaintext first, only one, none), wrong key, initial payload 0..65535, pads drawn by rain from the seeded crypto/rand, then full-duplex data in random write and read chunkings; the handshake must fail on both sides or succeed on both with the acceptor's legal choice, and every byte (initial payload first) must arrive unchanged; (b) two or three real sessions with independently drawn encryption policies transfer a torrent over such a network: a session that forces a direction never writes or answers a plaintext handshake and never lists an unencrypted peer of that direction, compatible policies complete; (c) a session that forces encryption against scripted plaintext-only peers never puts a plaintext BitTorrent handshake on the wire, also not on the retry; non-trivial always (each run performs at least one handshake attempt); distinct = distinct event-trace hashes"}
	props["C06"] = &propCfg{Scenarios: []scenarioRef{{"metainfo", 1}}, OwnsCrash: true, Level: "exploration", ExtraEnv: []string{"SIM_MEMLIMIT_MB=6000"}, RunTimeout: 90 * time.Second,
		Rule: "a valid generated info dictionary is edited (0-3 edits: negative / overflowing / huge file lengths, piece length 0/negative/huge/odd, piece string cut or grown, wrong types, deleted keys, length and files together, empty files list, odd paths, deep nesting, huge or empty name, 50000 files, byte flips, truncation, duplicated key, trailing bytes) and handed to a real session as a .torrent file, as the body of a torrent URL, as metadata served by a scripted peer for a magnet link whose hash matches the edited bytes, or as the info of a resume record before NewSession; whatever is accepted must show positive piece length, >=1 piece, non-negative file lengths, piece count = ceil(total/piece length) and respect MaxPieces; Start must leave the event loop answering Stats() for 20 simulated seconds; the process runs under a 6 GB address-space limit and a 90 s wall-clock watchdog, so endless loops and runaway allocation end the run as a crash or hang, which this property owns; non-trivial always; distinct = distinct event-trace hashes"}
	props["C07"] = &propCfg{Scenarios: []scenarioRef{{"paths", 1}}, OwnsCrash: true, Level: "exploration",
		Rule: "single- and multi-file torrents whose name and path components are drawn from hostile strings (dot-dot, dot, empty, embedded separators and backslashes, absolute, NUL, 300 bytes, invalid UTF-8, traversal chains aimed at files that exist in the simulated file system) are added to a real session with and without the torrent-id directory level, started (allocation runs), and removed; 40% of the runs also post a multipart move request to the session's RPC port whose tar entries have hostile names; every operation in the simulated disk's audit log other than stat must lie inside the torrent's own directory (or be the creation of its parents), files that exist elsewhere must survive, and a completed allocation must leave as many distinct files as the torrent has; non-trivial always; distinct = distinct event-trace hashes"}
	props["C02"] = &propCfg{Scenarios: []scenarioRef{{"create", 2}, {"transfer_clean", 2}, {"seeding", 1}, {"pair", 1}, {"transfer_byz", 1}, {"lifecycle", 1}}, Level: "exploration", Also: []string{"C03/piece.content", "C03/piece.length", "C11/pair.content", "C04/truth.seeding_incomplete", "C04/truth.have_exceeds_disk", "C01/claim.not_on_disk", "C04/converge.files_differ"},
		Rule: "(a) rain's torrent creation code reads a generated directory tree from the simulated disk (short reads, files ending on / one byte off piece boundaries, empty files, nested directories, lexical walk order): the piece hashes must equal those of an independent flat-array model and a real session must verify the created torrent completely against the same tree; (b) in every transfer world each request a scripted peer receives must lie inside its piece, be at most 16 KiB, include no byte of a padding file and not overlap another outstanding request, no padding file is ever opened or written on the simulated disk, every write lies inside one piece and inside its file and carries the torrent's bytes, web seed ranges stay inside files and never name a padding file; layouts include zero-length files, leading / trailing / adjacent / whole-piece padding and odd piece lengths; (c) what was written is read back: every block a fuzzing leecher (unaligned offsets, odd lengths, ranges crossing file and cache-block boundaries) receives from a session that holds the data, and every file a second rain session downloads from the first, equals the torrent's bytes (the C03 block oracles and the pair content oracle count for this property in these scenarios); non-trivial if a piece write happened or a torrent was created; distinct = distinct event-trace hashes"}
	props["C15"] = &propCfg{Scenarios: []scenarioRef{{"trackers", 1}}, Level: "exploration",
		Rule: "1-3 torrents announcing to 1-3 tiers of scripted HTTP and UDP trackers whose reply scripts are generated (ok with any 32-bit interval / min interval or none, failure with retry-in, 4xx/5xx, garbage, oversize, no reply, delays; UDP: wrong transaction id, short, duplicate, datagram loss/duplication, connection-id expiry), down windows, start/stop/announce commands, optional seed so that 'completed' happens; every announce is checked online (info-hash, port, peer id vs handshake, counters, event discipline per run, spacing); non-trivial if more than two announces were received; distinct = distinct event-trace hashes among non-trivial runs"}
	props["C16"] = &propCfg{Scenarios: []scenarioRef{{"trackers", 1}}, OwnsCrash: true, Level: "exploration",
		Rule: "same tracker worlds run for 0.5-12 simulated hours; oracles: fail-over order inside HTTP-only tiers judged on the outcome the client saw (reply fully written while the request was alive; cancels and down windows excluded), full-cycle coverage, bounded silence per tier while the torrent runs (tracker-directed waits honoured), per-reply read limit via transport byte counts, replies under a wrong transaction id never used, no crash; non-trivial if more than two announces were received; distinct = distinct event-trace hashes among non-trivial runs"}
	props["C04"] = &propCfg{Scenarios: []scenarioRef{{"lifecycle", 4}, {"transfer_byz", 1}}, OwnsCrash: true, Level: "exploration",
		Rule: "random command sequences (start/stop/verify/announce/add peer by IP and host name/add tracker/stats/peers/trackers/webseeds/remove/close) with gaps from 0 to minutes, external corrupt/truncate/delete mutations at Stopped points, slow disk and slow tracker, injected write error; oracles: no crash, API calls return, stop/start/verify effects, truthful status at random samples, final convergence; non-trivial if a piece was written or more than two commands ran; distinct = distinct event-trace hashes among non-trivial runs"}
	props["C05"] = &propCfg{Scenarios: []scenarioRef{{"crash", 1}}, Level: "fault_enumeration",
		Rule: "downloads on the real filestorage over the simulated disk with crash snapshots (durable bytes + random subset of in-flight sectors + occasional volatile sectors, DB file copy) at seed-chosen write gates (begin/mid/end) and command points, optionally with files deleted from the image; each snapshot boots a fresh session whose claims (bitfield to an observer peer, Stats) are compared with the surviving files; non-trivial if at least one restart was checked; distinct = distinct event-trace hashes among non-trivial runs"}
	props["C03"] = &propCfg{Scenarios: []scenarioRef{{"seeding", 1}}, Level: "exploration",
		Rule: "seeding plans from the seed: layout, read-cache block size/capacity/TTL, parallel reads, request-queue and unchoke limits, partial seed, disk read errors, 1-5 scripted leechers issuing generated requests (aligned, unaligned, crossing cache-block multiples, invalid, for missing pieces, while choked, cancels); non-trivial if at least one block was received and checked; distinct = distinct event-trace hashes among non-trivial runs"}
	props["C11"] = &propCfg{Scenarios: []scenarioRef{{"seeding", 2}, {"transfer_byz", 2}, {"pair", 2}, {"transfer_clean", 1}}, Level: "exploration",
		Rule: "every byte the SUT emits to a scripted peer passes a strict decoder under PRNG fragmentation (handshake, core, fast and extension messages, ut_metadata, PEX); seeding runs also compare the upload counter with the piece payload bytes seen by a socket tap; non-trivial if a piece was written to disk or a block was uploaded; distinct = distinct event-trace hashes among non-trivial runs"}
	props["C09"] = &propCfg{Scenarios: []scenarioRef{{"transfer_byz", 2}, {"picker", 3}, {"transfer_clean", 1}}, Level: "exploration",
		Rule: "each request a scripted peer receives is checked against that peer's own view (advertised pieces, choke state / allowed-fast, haves sent by the SUT, one piece per peer, request-queue limit), the number of peers at which the SUT keeps un-cancelled block requests for one piece outstanding for >2 s (all of them caught up with the SUT's stream) against the end-game duplicate limit, and Stats().Pieces.Available against the union of settled peers; non-trivial if at least one piece write happened; distinct = distinct event-trace hashes among non-trivial runs"}
	props["C01"] = &propCfg{Scenarios: []scenarioRef{{"transfer_byz", 4}, {"corrupt", 1}, {"transfer_clean", 1}, {"lifecycle", 2}}, Level: "exploration", Also: []string{"C04/truth.seeding_incomplete", "C04/truth.have_exceeds_disk"},
		Rule: "plans generated from the seed with byzantine peers / faulty web seeds / stop-start commands; non-trivial if at least one piece write reached the simulated disk; distinct = distinct event-trace hashes among non-trivial runs"}
}

// ---------------------------------------------------------------------------

func die(code int, f string, a ...any) {
	fmt.Fprintf(os.Stderr, "vcheck: "+f+"\n", a...)
	os.Exit(code)
}

func build(race bool) string {
	args := []string{}
	if race {
		args = append(args, "race")
	}
	cmd := exec.Command(V+"/build.sh", args...)
	var out bytes.Buffer
	cmd.Stdout = &out
	cmd.Stderr = os.Stderr
	if err := cmd.Run(); err != nil {
		die(2, "build failed: %v", err)
	}
	return strings.TrimSpace(out.String())
}

type runner struct {
	bin     string
	tier    string
	workDir string
	timeout time.Duration
	env     []string
}

func (r *runner) run(scenario string, seed uint64, planFile string, extraEnv ...string) *runOutcome {
	id := fmt.Sprintf("%s-%d-%d", scenario, seed, time.Now().UnixNano())
	out := filepath.Join(r.workDir, id+".json")
	planOut := filepath.Join(r.workDir, id+".plan.json")
	cmd := exec.Command(r.bin, "-test.run", "^TestSim$", "-test.timeout", "0")
	env := append(os.Environ(), "SIMRT=1", "GOMAXPROCS=1", "GOGC=off", "SIM_OUT="+out, "SIM_TIER="+r.tier, "GOTRACEBACK=all")
	if planFile != "" {
		env = append(env, "SIM_PLAN="+planFile)
	} else {
		env = append(env, "SIM_SCENARIO="+scenario, "SIM_SEED="+strconv.FormatUint(seed, 10), "SIM_PLAN_OUT="+planOut)
	}
	if strings.HasSuffix(r.bin, "race.test") {
		env = append(env, "GORACE=log_path="+filepath.Join(r.workDir, id+".race")+" halt_on_error=0 exitcode=0 history_size=4")
	}
	env = append(env, r.env...)
	env = append(env, extraEnv...)
	cmd.Env = env
	var stderr bytes.Buffer
	cmd.Stderr = &stderr
	cmd.Stdout = &stderr
	t0 := time.Now()
	if err := cmd.Start(); err != nil {
		return &runOutcome{Scenario: scenario, Seed: seed, Kind: "harness", Stderr: err.Error()}
	}
	done := make(chan error, 1)
	go func() { done <- cmd.Wait() }()
	o := &runOutcome{Scenario: scenario, Seed: seed, PlanFile: planFile}
	if planFile == "" {
		o.PlanFile = planOut
	}
	var werr error
	select {
	case werr = <-done:
	case <-time.After(r.timeout):
		cmd.Process.Kill()
		<-done
		o.Kind = "hang"
		o.Wall = time.Since(t0)
		o.Stderr = tail(stderr.String(), 4000)
		cleanupShm(stderr.String())
		return o
	}
	o.Wall = time.Since(t0)
	o.Stderr = stderr.String()
	b, rerr := os.ReadFile(out)
	os.Remove(out)
	if rerr == nil {
		var res Result
		if json.Unmarshal(b, &res) == nil {
			o.Res = &res
		}
	}
	switch {
	case o.Res != nil && o.Res.HarnessErr != "":
		o.Kind = "harness"
		o.Stderr = o.Res.HarnessErr
	case o.Res != nil && len(o.Res.Violations) > 0:
		o.Kind = "violation"
		o.Viol = &o.Res.Violations[0]
	case o.Res != nil:
		o.Kind = "ok"
	default:
		// no result file: the process died
		_ = werr
		o.Kind, o.Viol = classifyCrash(o.Stderr)
		cleanupShm(o.Stderr)
	}
	return o
}

func cleanupShm(stderr string) {
	// best effort: remove temp dirs of dead processes (named in crash messages or left over)
	ents, _ := filepath.Glob("/dev/shm/vsim-*")
	for _, e := range ents {
		if fi, err := os.Stat(e); err == nil && time.Since(fi.ModTime()) > 10*time.Minute {
			os.RemoveAll(e)
		}
	}
}

func tail(s string, n int) string {
	if len(s) > n {
		return s[len(s)-n:]
	}
	return s
}

var rePanic = regexp.MustCompile(`(?m)^(panic: .*|fatal error: .*)$`)
var reFrame = regexp.MustCompile(`(?m)^([A-Za-z0-9_./\-]+(?:\(\*?[A-Za-z0-9_]+(?:\[[^\]]*\])?\))?\.[A-Za-z0-9_.\-\[\]]+)\(`)
var reRace = regexp.MustCompile(`WARNING: DATA RACE`)

// classifyCrash turns a dead process's stderr into a violation (rain crashed) or a harness error.
func classifyCrash(stderr string) (string, *Violation) {
	if reRace.MatchString(stderr) {
		return "violation", &Violation{Property: "C20", Oracle: "race", Detail: raceSignature(stderr)}
	}
	m := rePanic.FindString(stderr)
	if m == "" {
		return "harness", nil
	}
	// take the frames of the first goroutine after the panic line
	idx := strings.Index(stderr, m)
	rest := stderr[idx:]
	frames := reFrame.FindAllStringSubmatch(rest, 40)
	var rain []string
	harness := false
	for _, f := range frames {
		fn := f[1]
		if strings.HasPrefix(fn, "runtime.") || strings.HasPrefix(fn, "panic") || strings.HasPrefix(fn, "testing.") || strings.HasPrefix(fn, "internal/") {
			continue
		}
		if strings.Contains(fn, "/internal/zzsim/") {
			if len(rain) == 0 {
				harness = true
			}
			break
		}
		if strings.Contains(fn, "cenkalti/rain") || len(rain) > 0 {
			rain = append(rain, shortFn(fn))
			if len(rain) >= 4 {
				break
			}
		} else {
			rain = append(rain, shortFn(fn))
			if len(rain) >= 4 {
				break
			}
		}
	}
	msg := normalisePanic(m)
	if strings.HasPrefix(m, "panic: harness:") || strings.Contains(m, "simnet:") || strings.Contains(m, "simfs:") || strings.Contains(m, "simrt.") {
		return "harness", nil
	}
	if harness && !strings.Contains(m, "does not respond") {
		return "harness", nil
	}
	if strings.Contains(m, "all goroutines in bubble are blocked") {
		return "violation", &Violation{Property: "CRASH", Oracle: "deadlock", Detail: msg}
	}
	return "violation", &Violation{Property: "CRASH", Oracle: "panic", Detail: msg + " @ " + strings.Join(rain, " < ")}
}

func shortFn(fn string) string {
	fn = strings.TrimPrefix(fn, "github.com/cenkalti/rain/v2/")
	return fn
}

var reNum = regexp.MustCompile(`0x[0-9a-f]+|\b\d+\b`)
var reDump = regexp.MustCompile(`Saving goroutine stacks to: \S+`)

func normalisePanic(m string) string {
	m = reDump.ReplaceAllString(m, "")
	m = strings.TrimSuffix(m, " [recovered]")
	m = reNum.ReplaceAllString(m, "N")
	if len(m) > 200 {
		m = m[:200]
	}
	return strings.TrimSpace(m)
}

func raceSignature(stderr string) string {
	// function pairs of the first report
	i := strings.Index(stderr, "WARNING: DATA RACE")
	rest := stderr[i:]
	if j := strings.Index(rest, "=================="); j > 0 {
		rest = rest[:j]
	}
	var fns []string
	for _, blk := range strings.Split(rest, "\n\n") {
		lines := strings.Split(strings.TrimSpace(blk), "\n")
		if len(lines) < 2 {
			continue
		}
		head := lines[0]
		if !(strings.Contains(head, "Write at") || strings.Contains(head, "Read at") || strings.Contains(head, "Previous write") || strings.Contains(head, "Previous read") || strings.Contains(head, "DATA RACE")) {
			continue
		}
		for _, l := range lines[1:] {
			l = strings.TrimSpace(l)
			if strings.HasSuffix(l, ")") && !strings.HasPrefix(l, "/") && !strings.HasPrefix(l, "runtime.") && !strings.HasPrefix(l, "sync") {
				if k := strings.Index(l, "("); k > 0 {
					fns = append(fns, shortFn(l[:k]))
					break
				}
			}
		}
	}
	if len(fns) > 2 {
		fns = fns[:2]
	}
	sort.Strings(fns)
	return "data race: " + strings.Join(fns, " <-> ")
}

// ---------------------------------------------------------------------------
// known findings

type Finding struct {
	ID       string `json:"id"`
	Property string `json:"property"`
	Status   string `json:"status"` // "open" or "fixed"
	Commit   string `json:"commit,omitempty"`
	Oracle   string `json:"oracle"`
	Match    string `json:"match"` // regexp over the violation detail
	Replay   string `json:"replay,omitempty"`
	What     string `json:"what"`
	re       *regexp.Regexp
}

func loadFindings() []*Finding {
	b, err := os.ReadFile(V + "/known_findings.json")
	if err != nil {
		return nil
	}
	var fs []*Finding
	if err := json.Unmarshal(b, &fs); err != nil {
		die(2, "known_findings.json: %v", err)
	}
	for _, f := range fs {
		re, err := regexp.Compile(f.Match)
		if err != nil {
			die(2, "known_findings.json: bad match for %s: %v", f.ID, err)
		}
		f.re = re
	}
	return fs
}

func matchFinding(fs []*Finding, v *Violation) *Finding {
	for _, f := range fs {
		if f.Status != "open" {
			continue
		}
		if f.Property == v.Property && f.Oracle == v.Oracle && f.re.MatchString(v.Detail) {
			return f
		}
	}
	return nil
}

// ---------------------------------------------------------------------------
// replay files

type Replay struct {
	Property  string          `json:"property"`
	Oracle    string          `json:"oracle"`
	Detail    string          `json:"detail"`
	Scenario  string          `json:"scenario"`
	Seed      uint64          `json:"seed"`
	TraceHash string          `json:"trace_hash"`
	Race      bool            `json:"race,omitempty"`
	Plan      json.RawMessage `json:"plan"`
	Minimised bool            `json:"minimised"`
	Note      string          `json:"note,omitempty"`
}

func sigOf(v *Violation) string { return v.Property + "/" + v.Oracle }

func writePlan(dir string, plan []byte) string {
	h := sha256.Sum256(plan)
	p := filepath.Join(dir, "plan-"+hex.EncodeToString(h[:6])+".json")
	os.WriteFile(p, plan, 0o644)
	return p
}

// ---------------------------------------------------------------------------
// minimiser: generic JSON plan reduction

func minimise(r *runner, planBytes []byte, want *Violation, budget int) ([]byte, int) {
	var plan map[string]any
	if json.Unmarshal(planBytes, &plan) != nil {
		return planBytes, 0
	}
	tries := 0
	test := func(p map[string]any) bool {
		if tries >= budget {
			return false
		}
		tries++
		b, _ := json.Marshal(p)
		pf := writePlan(r.workDir, b)
		defer os.Remove(pf)
		o := r.run("min", 0, pf)
		return o.Viol != nil && o.Viol.Property == want.Property && o.Viol.Oracle == want.Oracle
	}
	clone := func(p map[string]any) map[string]any {
		b, _ := json.Marshal(p)
		var q map[string]any
		json.Unmarshal(b, &q)
		return q
	}
	// find the scenario sub-plan (first object-valued key other than the header)
	var sub string
	for k, v := range plan {
		if _, ok := v.(map[string]any); ok && k != "generic" {
			sub = k
		}
	}
	if sub == "" {
		return planBytes, 0
	}
	changed := true
	for changed && tries < budget {
		changed = false
		sp := plan[sub].(map[string]any)
		// 1. delete list elements (actors, steps, ...)
		keys := make([]string, 0)
		for k, v := range sp {
			if _, ok := v.([]any); ok {
				keys = append(keys, k)
			}
		}
		sort.Strings(keys)
		for _, k := range keys {
			arr := sp[k].([]any)
			// try removing chunks, then single elements
			for chunk := len(arr) / 2; chunk >= 1; chunk /= 2 {
				for i := 0; i+chunk <= len(arr); {
					cand := clone(plan)
					ca := cand[sub].(map[string]any)[k].([]any)
					na := append(append([]any{}, ca[:i]...), ca[i+chunk:]...)
					cand[sub].(map[string]any)[k] = na
					if test(cand) {
						plan = cand
						arr = na
						changed = true
					} else {
						i += chunk
					}
					if tries >= budget {
						break
					}
				}
			}
		}
		// 2. reset knobs to defaults one by one
		sp = plan[sub].(map[string]any)
		if kn, ok := sp["knobs"].(map[string]any); ok {
			ks := make([]string, 0, len(kn))
			for k := range kn {
				ks = append(ks, k)
			}
			sort.Strings(ks)
			for _, k := range ks {
				cand := clone(plan)
				delete(cand[sub].(map[string]any)["knobs"].(map[string]any), k)
				if test(cand) {
					plan = cand
					changed = true
				}
			}
		}
	}
	b, _ := json.MarshalIndent(plan, "", " ")
	return b, tries
}

// ---------------------------------------------------------------------------

type evidence struct {
	PropertyID  string         `json:"property_id"`
	Tier        string         `json:"tier"`
	Seed        int64          `json:"seed"`
	Level       string         `json:"level"`
	Coverage    map[string]any `json:"coverage"`
	Assumptions []string       `json:"assumptions"`
	WallS       float64        `json:"wall_s"`
	Violations  int            `json:"violations"`
}

func main() {
	tier := flag.String("tier", os.Getenv("VERIF_TIER"), "quick or thorough")
	seedFlag := flag.String("seed", os.Getenv("VERIF_SEED"), "base seed")
	budgetFlag := flag.Duration("budget", 0, "wall-clock exploration budget")
	maxRuns := flag.Int("runs", 0, "max runs (0 = budget only)")
	replay := flag.String("replay", "", "replay file to re-execute")
	workers := flag.Int("workers", 16, "parallel simulation processes")
	onlyScenario := flag.String("scenario", "", "restrict to one scenario (dev)")
	// allow "vcheck C10 --tier quick": move the first non-flag argument to the end
	args := os.Args[1:]
	var pos []string
	var flags []string
	for i := 0; i < len(args); i++ {
		if strings.HasPrefix(args[i], "-") {
			flags = append(flags, args[i])
			if !strings.Contains(args[i], "=") && i+1 < len(args) && !strings.HasPrefix(args[i+1], "-") {
				flags = append(flags, args[i+1])
				i++
			}
		} else {
			pos = append(pos, args[i])
		}
	}
	flag.CommandLine.Parse(flags)
	if *tier == "" {
		*tier = "quick"
	}
	work, err := os.MkdirTemp("/dev/shm", "vcheck-")
	if err != nil {
		die(2, "%v", err)
	}
	defer os.RemoveAll(work)

	if *replay != "" {
		os.Exit(doReplay(*replay, work, true))
	}
	if len(pos) != 1 {
		die(2, "usage: vcheck <property> [--tier quick|thorough] [--seed N]")
	}
	prop := pos[0]
	cfg := props[prop]
	if cfg == nil {
		die(2, "no check registered for %s", prop)
	}
	baseSeed := int64(1)
	if *seedFlag != "" {
		if v, err := strconv.ParseInt(*seedFlag, 10, 64); err == nil {
			baseSeed = v
		}
	}
	budget := 75 * time.Second
	if cfg.QuickBudget > 0 {
		budget = cfg.QuickBudget
	}
	if *tier == "thorough" {
		budget = 20 * time.Minute
		if cfg.ThorBudget > 0 {
			budget = cfg.ThorBudget
		}
	}
	if *budgetFlag > 0 {
		budget = *budgetFlag
	}
	t0 := time.Now()
	dir := build(cfg.Race)
	bin := dir + "/sim.test"
	if cfg.Race {
		bin = dir + "/sim.race.test"
	}
	r := &runner{bin: bin, tier: *tier, workDir: work, timeout: 240 * time.Second, env: cfg.ExtraEnv}
	if cfg.RunTimeout > 0 {
		r.timeout = cfg.RunTimeout
	}
	findings := loadFindings()

	exit := 0
	// 1. known findings of this property: replay each open one
	for _, f := range findings {
		if f.Property != prop || f.Status != "open" || f.Replay == "" {
			continue
		}
		rp := readReplay(filepath.Join(V, f.Replay))
		pf := writePlan(work, rp.Plan)
		o := r.run(rp.Scenario, rp.Seed, pf)
		if o.Viol != nil && matchFinding([]*Finding{f}, normViol(o.Viol, prop, cfg)) != nil {
			fmt.Printf("KNOWN-FINDING: property=%s %s\n", prop, f.What)
		} else {
			fmt.Printf("note: known finding %s did not reproduce on this tree (kind=%s)\n", f.ID, o.Kind)
		}
	}

	// 2. exploration
	type job struct {
		sc   string
		seed uint64
	}
	var scen []scenarioRef
	for _, s := range cfg.Scenarios {
		if *onlyScenario == "" || *onlyScenario == s.Name {
			scen = append(scen, s)
		}
	}
	totalW := 0
	for _, s := range scen {
		totalW += s.Weight
	}
	jobs := make(chan job)
	var slowRuns atomic.Int64
	results := make(chan *runOutcome, 64)
	var wg sync.WaitGroup
	for i := 0; i < *workers; i++ {
		wg.Add(1)
		go func() {
			defer wg.Done()
			for j := range jobs {
				o := r.run(j.sc, j.seed, "")
				if o.Kind == "hang" {
					// A wall-clock watchdog fires on a loaded machine too. A hang counts only
					// if the same run, alone in its worker with five times the time, hangs again
					// (it is deterministic: a real endless loop or lock-up repeats).
					os.Remove(o.PlanFile)
					r2 := *r
					r2.timeout = 5 * r.timeout
					o2 := r2.run(j.sc, j.seed, "")
					if o2.Kind != "hang" {
						slowRuns.Add(1)
					}
					o = o2
				}
				results <- o
			}
		}()
	}
	stop := make(chan struct{})
	go func() {
		n := 0
		// the budget is exploration time: building (slow on a loaded machine) does not eat it
		deadline := time.Now().Add(budget)
		for {
			if time.Now().After(deadline) || (*maxRuns > 0 && n >= *maxRuns) {
				break
			}
			select {
			case <-stop:
				close(jobs)
				return
			default:
			}
			k := n % totalW
			sc := scen[0].Name
			for _, s := range scen {
				if k < s.Weight {
					sc = s.Name
					break
				}
				k -= s.Weight
			}
			seed := uint64(baseSeed)*1000003 + uint64(n)
			select {
			case jobs <- job{sc, seed}:
				n++
			case <-stop:
				close(jobs)
				return
			}
		}
		close(jobs)
	}()
	go func() { wg.Wait(); close(results) }()

	var (
		evals, nontriv             int
		distinct                   = map[string]bool{}
		distinctSig                = map[string]bool{}
		counters                   = map[string]int64{}
		simSeconds                 float64
		perScenario                = map[string]int{}
		foreign                    = map[string]int{}
		known                      = map[string]int{}
		samples                    []any
		newViol                    *runOutcome
		harnessErrs                []string
		hangs                      int
		sampleSeeds                []job
		traceBySeed                = map[string]string{}
		probeZero                  []string
		totalEvents, totalDraws    uint64
	)
	stopped := false
	for o := range results {
		evals++
		perScenario[o.Scenario]++
		if o.Res != nil {
			simSeconds += o.Res.SimTime
			totalEvents += o.Res.Events
			totalDraws += o.Res.SchedDraws
			for k, v := range o.Res.Counters {
				counters[k] += v
			}
			if o.Res.NonTrivial {
				nontriv++
				distinct[o.Res.TraceHash] = true
				distinctSig[o.Res.Signature] = true
			}
			if len(samples) < 3 && o.Res.NonTrivial && o.Kind == "ok" {
				if pb, err := os.ReadFile(o.PlanFile); err == nil {
					var pj any
					json.Unmarshal(pb, &pj)
					samples = append(samples, map[string]any{"scenario": o.Scenario, "seed": o.Seed, "trace_hash": o.Res.TraceHash, "sim_seconds": o.Res.SimTime, "events": o.Res.Events, "stats": o.Res.Stats, "plan": compactPlan(pj)})
				}
			}
			if len(sampleSeeds) < 4 && o.Kind == "ok" {
				sampleSeeds = append(sampleSeeds, job{o.Scenario, o.Seed})
				traceBySeed[fmt.Sprintf("%s/%d", o.Scenario, o.Seed)] = o.Res.TraceHash
			}
		}
		switch o.Kind {
		case "harness":
			harnessErrs = append(harnessErrs, fmt.Sprintf("%s seed %d: %s", o.Scenario, o.Seed, tail(o.Stderr, 1500)))
		case "hang":
			hangs++
			v := &Violation{Property: "CRASH", Oracle: "hang", Detail: "no progress: process killed by the wall-clock watchdog"}
			o.Viol = v
			fallthrough
		case "violation":
			// a run may carry several violations (data races are collected, not terminal)
			vs := []*Violation{o.Viol}
			if o.Res != nil && len(o.Res.Violations) > 1 {
				vs = nil
				for i := range o.Res.Violations {
					vs = append(vs, &o.Res.Violations[i])
				}
			}
			for _, v0 := range vs {
				v := normViol(v0, prop, cfg)
				switch {
				case v.Property != prop:
					foreign[sigOf(v)]++
					if foreign[sigOf(v)] == 1 {
						fmt.Printf("foreign: %s seed=%d %s: %s\n", o.Scenario, o.Seed, sigOf(v), v.Detail)
					}
				case matchFinding(findings, v) != nil:
					known[matchFinding(findings, v).ID]++
				default:
					if newViol == nil {
						o.Viol = v
						newViol = o
						if !stopped {
							stopped = true
							close(stop)
						}
					}
				}
			}
		}
		if o.PlanFile != "" && (newViol == nil || o != newViol) && strings.HasPrefix(o.PlanFile, work) {
			os.Remove(o.PlanFile)
		}
	}
	if !stopped {
		close(stop)
	}

	if len(harnessErrs) > 0 && evals > 0 && float64(len(harnessErrs)) > 0 {
		fmt.Fprintf(os.Stderr, "vcheck: %d harness errors, first: %s\n", len(harnessErrs), harnessErrs[0])
		os.Exit(2)
	}

	// 3. determinism self-check on a sample
	detChecked, detMismatch := 0, 0
	if newViol == nil {
		for _, j := range sampleSeeds {
			o := r.run(j.sc, j.seed, "")
			os.Remove(o.PlanFile)
			if o.Res == nil {
				continue
			}
			detChecked++
			if o.Res.TraceHash != traceBySeed[fmt.Sprintf("%s/%d", j.sc, j.seed)] {
				detMismatch++
				fmt.Fprintf(os.Stderr, "vcheck: determinism mismatch %s seed %d\n", j.sc, j.seed)
			}
		}
		if detMismatch > 0 {
			os.Exit(2)
		}
	}

	// 4. new violation: minimise, write replay, replay in a fresh process
	nviol := 0
	if newViol != nil {
		nviol = 1
		exit = 1
		planBytes, _ := os.ReadFile(newViol.PlanFile)
		minBudget := 40
		if *tier == "thorough" {
			minBudget = 150
		}
		minPlan, tries := planBytes, 0
		if newViol.Kind != "hang" {
			minPlan, tries = minimise(r, planBytes, rawViol(newViol.Viol, prop), minBudget)
		}
		rp := Replay{Property: prop, Oracle: newViol.Viol.Oracle, Detail: newViol.Viol.Detail, Scenario: newViol.Scenario, Seed: newViol.Seed, Plan: minPlan, Minimised: tries > 0, Race: cfg.Race, Note: fmt.Sprintf("minimiser tried %d candidate plans", tries)}
		if newViol.Res != nil {
			rp.TraceHash = newViol.Res.TraceHash
		}
		os.MkdirAll(V+"/replays", 0o755)
		path := fmt.Sprintf("%s/replays/%s-%d.json", V, prop, newViol.Seed)
		b, _ := json.MarshalIndent(rp, "", " ")
		os.WriteFile(path, b, 0o644)
		// confirm in a fresh process; fall back to the unminimised plan
		if doReplay(path, work, false) != 1 {
			rp.Plan, rp.Minimised = planBytes, false
			rp.Note += "; minimised plan did not reproduce, original plan kept"
			b, _ = json.MarshalIndent(rp, "", " ")
			os.WriteFile(path, b, 0o644)
		}
		fmt.Printf("violation: %s %s: %s\n", prop, newViol.Viol.Oracle, newViol.Viol.Detail)
		if newViol.Res != nil {
			for _, l := range newViol.Res.LogTail[max(0, len(newViol.Res.LogTail)-25):] {
				fmt.Println("   ", l)
			}
		} else {
			fmt.Println(tail(newViol.Stderr, 3000))
		}
		fmt.Printf("VIOLATION property=%s replay=%s\n", prop, path)
	}
	for id, n := range known {
		for _, f := range findings {
			if f.ID == id {
				fmt.Printf("KNOWN-FINDING: property=%s %s (met %d times during exploration)\n", prop, f.What, n)
			}
		}
	}

	// 5. evidence
	wall := time.Since(t0).Seconds()
	faults := map[string]int64{}
	probes := map[string]int64{}
	for k, v := range counters {
		if strings.HasPrefix(k, "fault.") {
			faults[k] = v
		} else {
			probes[k] = v
		}
	}
	for k, v := range probes {
		if v == 0 {
			probeZero = append(probeZero, k)
		}
	}
	if len(samples) == 0 {
		samples = append(samples, map[string]any{"note": "no clean non-trivial run to sample"})
	}
	ev := evidence{PropertyID: prop, Tier: *tier, Seed: baseSeed, Level: cfg.Level, WallS: wall, Violations: nviol,
		Assumptions: append(append([]string{}, commonAssumptions...), cfg.Assumptions...),
		Coverage: map[string]any{
			"evaluations":            evals,
			"distinct_nontrivial":    len(distinct),
			"nontrivial_runs":        nontriv,
			"distinct_plan_shapes":   len(distinctSig),
			"rule":                   cfg.Rule,
			"samples":                samples,
			"runs_per_scenario":      perScenario,
			"runs_per_hour":          float64(evals) / wall * 3600,
			"simulated_seconds":      simSeconds,
			"events":                 totalEvents,
			"scheduler_choice_points": totalDraws,
			"faults_fired":           faults,
			"probes":                 probes,
			"foreign_violations":     foreign,
			"known_findings_met":     known,
			"hangs":                  hangs,
			"slow_runs_rechecked":    slowRuns.Load(),
			"determinism_recheck":    map[string]int{"reran": detChecked, "mismatch": detMismatch},
			"real_vs_stub":           "real: rain torrent/ + internal/* (filestorage, mse, trackers, resumer, bbolt, net/http); simulated seams: scheduler, clock, sockets/DNS, data files; stub: DHT; scripted: peers, trackers, web seeds",
		}}
	os.MkdirAll(V+"/evidence", 0o755)
	eb, _ := json.MarshalIndent(ev, "", " ")
	os.WriteFile(fmt.Sprintf("%s/evidence/%s.json", V, prop), eb, 0o644)
	fmt.Printf("%s %s: %d runs (%d non-trivial, %d distinct traces) in %.0fs, %.0f simulated s, faults fired: %d kinds, foreign: %v, known: %v\n",
		prop, *tier, evals, nontriv, len(distinct), wall, simSeconds, len(faults), foreign, known)
	os.Exit(exit)
}

// normViol maps CRASH pseudo-properties to the check's property when it owns crashes.
func normViol(v *Violation, prop string, cfg *propCfg) *Violation {
	if v.Property == "CRASH" {
		nv := *v
		if cfg.OwnsCrash {
			nv.Property = prop
		}
		return &nv
	}
	// a clause shared by two properties is observed by one oracle (named after the property it
	// was first written for): this property takes the listed oracles as its own
	for _, a := range cfg.Also {
		if v.Property+"/"+v.Oracle == a {
			nv := *v
			nv.Detail = "[" + v.Property + " oracle] " + v.Detail
			nv.Property = prop
			return &nv
		}
	}
	return v
}

func rawViol(v *Violation, prop string) *Violation {
	nv := *v
	if nv.Oracle == "panic" || nv.Oracle == "deadlock" || nv.Oracle == "hang" {
		nv.Property = "CRASH"
	}
	return &nv
}

func compactPlan(p any) any {
	// drop bulky fields (bitfields) from samples
	switch x := p.(type) {
	case map[string]any:
		out := map[string]any{}
		for k, v := range x {
			if k == "Have" {
				continue
			}
			out[k] = compactPlan(v)
		}
		return out
	case []any:
		out := make([]any, len(x))
		for i := range x {
			out[i] = compactPlan(x[i])
		}
		return out
	}
	return p
}

func readReplay(path string) *Replay {
	b, err := os.ReadFile(path)
	if err != nil {
		die(2, "replay: %v", err)
	}
	var rp Replay
	if err := json.Unmarshal(b, &rp); err != nil {
		die(2, "replay: %v", err)
	}
	return &rp
}

// doReplay re-executes a replay file. Returns 1 if the same violation recurred, 0 if not.
func doReplay(path, work string, verbose bool) int {
	rp := readReplay(path)
	dir := build(rp.Race)
	bin := dir + "/sim.test"
	if rp.Race {
		bin = dir + "/sim.race.test"
	}
	r := &runner{bin: bin, tier: "quick", workDir: work, timeout: 240 * time.Second}
	pf := writePlan(work, rp.Plan)
	o := r.run(rp.Scenario, rp.Seed, pf, "SIM_LOGTAIL=1")
	if verbose {
		if o.Res != nil {
			for _, l := range o.Res.LogTail {
				fmt.Println(l)
			}
		} else {
			fmt.Println(tail(o.Stderr, 6000))
		}
	}
	same := false
	if o.Viol != nil {
		v := o.Viol
		same = v.Oracle == rp.Oracle && (v.Property == rp.Property || v.Property == "CRASH")
	}
	if o.Kind == "hang" && rp.Oracle == "hang" {
		same = true
	}
	if verbose {
		if same {
			fmt.Printf("replay reproduced: %s %s: %s\n", rp.Property, rp.Oracle, o.Viol.Detail)
			fmt.Printf("VIOLATION property=%s replay=%s\n", rp.Property, path)
		} else {
			fmt.Printf("replay did NOT reproduce %s/%s (run kind=%s)\n", rp.Property, rp.Oracle, o.Kind)
		}
	}
	if same {
		return 1
	}
	return 0
}
