package main

func main() {}
