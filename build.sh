#!/bin/bash
# Builds the simulation binaries for /repo's current working tree into .build/<hash>/ and
# prints that directory. Usage: build.sh [race]
set -u
V=/verif
export GOFLAGS=-mod=mod GOPROXY=off GOTOOLCHAIN=local
GO=/opt/veriftools/go1.26.8/bin/go
[ -x $V/bin/simgen ] || $V/setup.sh >&2 || exit 2
H=$( (cd /repo && git rev-parse HEAD 2>/dev/null; git -C /repo diff HEAD 2>/dev/null; git -C /repo status --porcelain 2>/dev/null; find /repo -name '*.go' -newer /repo/go.mod -not -path '*/.git/*' 2>/dev/null | sort | xargs -r sha256sum; find $V/sim $V/cmd -type f | sort | xargs sha256sum) | sha256sum | cut -c1-16)
B=$V/.build/$H
mkdir -p $B
VARIANT=${1:-norace}
OUT=$B/sim.test
FLAGS=""
if [ "$VARIANT" = race ]; then OUT=$B/sim.race.test; FLAGS="-race"; fi
exec 9>$B/.lock
flock 9
if [ ! -x $OUT ]; then
  if [ ! -f $B/overlay.json ]; then
    $V/bin/simgen -out $B >&2 || { echo "build: simgen failed" >&2; exit 2; }
  fi
  (cd /repo && $GO test -c -vet=off $FLAGS -modfile=$B/go.mod -overlay=$B/overlay.json -o $OUT ./internal/zzsim/props) >&2 || { echo "build: go test -c failed" >&2; rm -f $OUT; exit 2; }
  # keep only the 3 newest build dirs
  ls -1dt $V/.build/*/ 2>/dev/null | grep -v '/rt/' | tail -n +31 | xargs -r rm -rf
fi
echo $B
