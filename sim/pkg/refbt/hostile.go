package refbt

import (
	"encoding/binary"
	"runtime/metrics"
	"time"

	"github.com/cenkalti/rain/v2/internal/zzsim/gen"
	"github.com/cenkalti/rain/v2/internal/zzsim/simrt"
)

// HostileSpec configures a scripted attacker (JSON-able).
type HostileSpec struct {
	// Kind: "oversize" (length prefix beyond the limit, no body), "garbage" (random bytes),
	// "valid" (well-formed messages with arbitrary field values in arbitrary order),
	// "truncate" (cut a frame and close), "mixed".
	Kind string `json:"kind"`
	N    int    `json:"n"`              // number of messages / bytes scale
	Max  uint32 `json:"max,omitempty"`  // the SUT's configured maximum message size
	Nice bool   `json:"nice,omitempty"` // send a normal bitfield / extension handshake first
}

func (p *Peer) runHostile(h HostileSpec) {
	r := p.rng
	if h.Nice {
		if p.T != nil {
			p.WriteRaw(EncBitfield(FullBits(p.T.NumPieces)))
		}
		if p.ext() {
			p.WriteRaw(p.extHandshake())
		}
	}
	kind := h.Kind
	if kind == "ghost" {
		// well-formed messages of which one gets the connection closed, followed by more of them:
		// while the client has no metadata yet it can only queue them all (the index cannot be judged)
		np := uint32(8)
		if p.T != nil {
			np = uint32(p.T.NumPieces)
		}
		b := EncSimple(MsgUnchoke)
		b = append(b, EncHave(np+uint32(r.Intn(5)))...)
		for i := uint32(0); i < np; i++ {
			b = append(b, EncHave(i)...)
		}
		p.WriteRaw(b)
		simrt.Count("fault.hostile.ghost", 1)
		time.Sleep(r.Dur(0, 3*time.Second))
		return
	}
	desync := false
	for i := 0; i < max(1, h.N); i++ {
		if p.IsClosed() {
			return
		}
		k := kind
		if k == "mixed" {
			k = simrt.Pick(r, []string{"oversize", "garbage", "valid", "valid", "valid", "truncate", "shortframe", "shortframe"})
		}
		if k == "oversize" && desync {
			k = "valid" // the stream is already out of sync: a header would be read as body bytes
		}
		switch k {
		case "oversize":
			p.attackOversize(h)
			return
		case "garbage":
			n := r.Range(1, 4096)
			if p.WriteRaw(r.Bytes(n)) != nil {
				return
			}
			simrt.Count("fault.hostile.garbage", 1)
			desync = true
		case "shortframe":
			// a frame whose length prefix is smaller than the fixed fields of its message
			// type, followed by the bytes a full message would have had
			type sf struct{ id, fixed int }
			m := simrt.Pick(r, []sf{{MsgPiece, 9}, {MsgPiece, 9}, {MsgHave, 5}, {MsgRequest, 13}, {MsgCancel, 13}, {MsgReject, 13}, {MsgPort, 3}, {MsgAllowedFast, 5}, {MsgExtended, 2}, {MsgSuggest, 5}})
			l := 1 + r.Intn(m.fixed-1)
			b := []byte{0, 0, 0, byte(l), byte(m.id)}
			b = append(b, r.Bytes(r.Range(0, 40))...)
			if p.WriteRaw(b) != nil {
				return
			}
			simrt.Count("fault.hostile.shortframe", 1)
			desync = true
		case "truncate":
			b := p.randomValid()
			if len(b) > 1 {
				b = b[:1+r.Intn(len(b)-1)]
			}
			p.WriteRaw(b)
			simrt.Count("fault.hostile.truncate", 1)
			time.Sleep(r.Dur(0, 50*time.Millisecond))
			p.Close()
			return
		default:
			b, ok := p.randomValidSync()
			if p.WriteRaw(b) != nil {
				return
			}
			if !ok {
				desync = true
			}
			simrt.Count("fault.hostile.valid_msg", 1)
		}
		if r.Chance(0.3) {
			time.Sleep(r.Dur(0, 200*time.Millisecond))
		}
	}
	// linger so that replies/closure are observed
	time.Sleep(r.Dur(0, 3*time.Second))
}

// attackOversize sends only a frame header whose length exceeds the limit and checks that
// the SUT drops the connection instead of waiting for (and allocating) the body.
func (p *Peer) attackOversize(h HostileSpec) {
	r := p.rng
	limit := h.Max
	if limit == 0 {
		limit = 30 << 20
	}
	var id byte
	var l uint32
	switch r.Intn(5) {
	case 0: // generic message just over the limit
		id, l = byte(simrt.Pick(r, []int{MsgBitfield, MsgExtended, 99})), limit+2+uint32(r.Intn(1000))
	case 1:
		id, l = byte(simrt.Pick(r, []int{MsgBitfield, MsgExtended, MsgPiece, 99})), 0xffffffff
	case 2:
		id, l = byte(simrt.Pick(r, []int{MsgBitfield, MsgExtended})), 1<<31+uint32(r.Intn(1000))
	case 3: // piece block beyond 16 KiB
		id, l = MsgPiece, 9+16384+1+uint32(r.Intn(100000))
	default:
		id, l = byte(simrt.Pick(r, []int{MsgBitfield, MsgExtended})), 1<<30
	}
	alloc0 := heapAllocs()
	hdr := make([]byte, 5)
	binary.BigEndian.PutUint32(hdr, l)
	hdr[4] = id
	if id == MsgPiece {
		hdr = append(hdr, u32s(0, 0)...)
	}
	if p.WriteRaw(hdr) != nil {
		return
	}
	simrt.Count("fault.hostile.oversize_header", 1)
	// the SUT must close: wait up to 20 s of simulated time for our reader to see it
	dl := simrt.Now() + 20*time.Second
	closed := false
	for simrt.Now() < dl {
		if p.drained() {
			closed = true
			break
		}
		time.Sleep(100 * time.Millisecond)
	}
	alloc1 := heapAllocs()
	if !closed {
		p.violate("C08", "oversize.not_dropped", "frame header announcing %d bytes (id %d, limit %d) sent without body: the connection is still open after 20 s", l, id, limit)
		return
	}
	if l >= 256<<20 {
		if d := alloc1 - alloc0; d > 128<<20 {
			p.violate("C08", "oversize.allocated", "after a frame header announcing %d bytes the process allocated %d bytes", l, d)
		}
	}
}

// drained reports whether the SUT has closed the connection (our drain reader saw EOF/error).
func (p *Peer) drained() bool {
	p.mu.Lock()
	defer p.mu.Unlock()
	return p.drainDone
}

// randomValidSync returns a message and whether the receiver stays in sync with the stream
// after it (fixed-size messages framed with a wrong payload size may not).
func (p *Peer) randomValidSync() ([]byte, bool) {
	b := p.randomValid()
	if len(b) >= 5 {
		id := int(b[4])
		want := map[int]int{MsgHave: 4, MsgRequest: 12, MsgCancel: 12, MsgReject: 12, MsgPort: 2, MsgChoke: 0, MsgUnchoke: 0, MsgInterested: 0, MsgNotInterested: 0, MsgAllowedFast: 4, MsgHaveAll: 0, MsgHaveNone: 0}
		if w, ok := want[id]; ok && len(b)-5 != w {
			return b, false
		}
	}
	return b, true
}

// randomValid returns one syntactically valid message with arbitrary field values.
func (p *Peer) randomValid() []byte {
	r := p.rng
	np := uint32(8)
	pl := uint32(32768)
	if p.T != nil {
		np, pl = uint32(p.T.NumPieces), uint32(p.T.PieceLen)
	}
	anyU32 := func(near uint32) uint32 {
		switch r.Intn(6) {
		case 0:
			return 0
		case 1:
			return near
		case 2:
			return near - 1
		case 3:
			return near + 1
		case 4:
			return 0xffffffff - uint32(r.Intn(3))
		}
		return uint32(r.Uint64())
	}
	switch r.Intn(17) {
	case 16: // the extension handshake sent again with other contents (BEP 10 allows it)
		first := map[string]any{"v": "x"}
		if r.Bool() {
			first["m"] = map[string]any{}
		}
		second := map[string]any{"m": map[string]any{simrt.Pick(r, []string{"ut_pex", "ut_metadata", "other"}): simrt.Pick(r, []int{0, 1, 3, 200})}}
		if r.Bool() {
			second["metadata_size"] = simrt.Pick(r, []any{0, 1, 1 << 30})
		}
		return append(EncExtended(0, first, nil), EncExtended(0, second, nil)...)
	case 0:
		return EncSimple(simrt.Pick(r, []int{MsgChoke, MsgUnchoke, MsgInterested, MsgNotInterested, MsgHaveAll, MsgHaveNone}))
	case 1:
		return EncHave(anyU32(np))
	case 2:
		n := simrt.Pick(r, []int{0, 1, int(np+7) / 8, int(np+7)/8 + 1, int(np+7)/8 - 1, 1000})
		if n < 0 {
			n = 0
		}
		return EncBitfield(r.Bytes(n))
	case 3:
		return EncRequest(anyU32(np), anyU32(pl), anyU32(16384))
	case 4:
		return EncCancel(anyU32(np), anyU32(pl), anyU32(16384))
	case 5:
		return EncReject(anyU32(np), anyU32(pl), anyU32(16384))
	case 6:
		return EncPiece(anyU32(np), anyU32(pl), r.Bytes(simrt.Pick(r, []int{0, 1, 100, 16384})))
	case 7:
		return EncAllowedFast(anyU32(np))
	case 8:
		return EncPort(uint16(r.Uint64()))
	case 9:
		return EncKeepAlive()
	case 10: // unknown id with a small body
		return frame(simrt.Pick(r, []int{10, 11, 12, 13, 18, 19, 21, 255}), r.Bytes(r.Range(0, 64)))
	case 11: // extension handshake with hostile values
		d := map[string]any{}
		switch r.Intn(4) {
		case 0:
			d["m"] = map[string]any{"ut_metadata": simrt.Pick(r, []int{0, 1, 2, 255, 256, -1}), "ut_pex": simrt.Pick(r, []int{0, 1, 300})}
		case 1:
			d["m"] = "not a dict"
		case 2:
			d["m"] = map[string]any{"ut_metadata": "x", "": 1}
		}
		d["reqq"] = simrt.Pick(r, []any{0, -1, 1, 1 << 30, "many", -9223372036854775807})
		d["metadata_size"] = simrt.Pick(r, []any{0, -1, 1, 16384, 1 << 30, 1 << 40, "big"})
		d["v"] = string(r.Bytes(r.Range(0, 300)))
		if r.Bool() {
			d["yourip"] = string(r.Bytes(simrt.Pick(r, []int{0, 3, 4, 16, 100})))
		}
		return EncExtended(0, d, nil)
	case 12: // ut_metadata message
		d := map[string]any{"msg_type": simrt.Pick(r, []any{0, 1, 2, 3, -1, "x"}), "piece": simrt.Pick(r, []any{0, 1, -1, 1 << 20, 1 << 40})}
		if r.Bool() {
			d["total_size"] = simrt.Pick(r, []any{0, -1, 1, 16384, 1 << 30})
		}
		return EncExtended(uint8(simrt.Pick(r, []int{1, 2, 3})), d, r.Bytes(simrt.Pick(r, []int{0, 1, 16384, 16385})))
	case 13: // pex
		if r.Bool() {
			// a well-formed list that names addresses more than once
			var added []byte
			n := r.Range(2, 5)
			for i := 0; i < n; i++ {
				a := []byte{10, 77, byte(r.Intn(2)), byte(1 + r.Intn(3)), byte(4 + r.Intn(2)), byte(r.Intn(3))}
				added = append(added, a...)
				if r.Bool() {
					added = append(added, a...)
				}
			}
			return EncExtended(uint8(simrt.Pick(r, []int{1, 2})), map[string]any{"added": string(added), "added.f": string(make([]byte, len(added)/6)), "dropped": ""}, nil)
		}
		return EncExtended(uint8(simrt.Pick(r, []int{1, 2})), map[string]any{"added": string(r.Bytes(simrt.Pick(r, []int{0, 5, 6, 7, 600}))), "dropped": string(r.Bytes(simrt.Pick(r, []int{0, 6, 11}))), "added.f": "x"}, nil)
	case 14: // extended message that is not bencode at all / wrong container
		return frame(MsgExtended, append([]byte{byte(r.Intn(4))}, simrt.Pick(r, [][]byte{[]byte("le"), []byte("i5e"), []byte("d"), r.Bytes(20), gen.Bencode([]any{1, 2})})...))
	default:
		// a fixed-size message with the wrong payload size
		return frame(simrt.Pick(r, []int{MsgHave, MsgRequest, MsgPort, MsgChoke, MsgAllowedFast}), r.Bytes(r.Range(0, 20)))
	}
}

// heapAllocs returns the cumulative bytes allocated on the heap (no stop-the-world).
func heapAllocs() uint64 {
	s := []metrics.Sample{{Name: "/gc/heap/allocs:bytes"}}
	metrics.Read(s)
	if s[0].Value.Kind() == metrics.KindUint64 {
		return s[0].Value.Uint64()
	}
	return 0
}
