package refbt

import (
	"bytes"
	"crypto/sha1"
	"errors"
	"fmt"
	"io"
	"net"
	"sync"
	"time"

	"github.com/cenkalti/rain/v2/internal/zzsim/gen"
	"github.com/cenkalti/rain/v2/internal/zzsim/simnet"
	"github.com/cenkalti/rain/v2/internal/zzsim/simrt"
)

// Behavior configures a scripted peer. The zero value is a silent peer; see Honest().
type Behavior struct {
	Fast, Ext, DHTBit bool // reserved bits advertised in the handshake

	// What the peer has and how it says so.
	Have Bits // nil = nothing
	// FetchMeta: ask the SUT for every piece of its metadata (ut_metadata) and compare what it
	// serves with the torrent's info dictionary.
	FetchMeta bool
	// HangupAfterCorrupt: close the connection right after the last block of a piece that was
	// served with corruption (the hash failure is then detected when the peer is already gone).
	HangupAfterCorrupt bool
	// RedundantHaves: after the initial announcement, this many have messages for pieces
	// already announced are sent again (legal, and seen from real clients).
	RedundantHaves int
	Announce       string // "auto" (haveall/havenone when fast, else bitfield), "bitfield", "haves", "lazy"
	// LieHave: advertise these pieces although the peer cannot serve them honestly.
	LieHave []int

	// Choking policy towards the SUT.
	UnchokeDelay   time.Duration
	NeverUnchoke   bool
	ChokeFlapEvery time.Duration // >0: toggle choke state periodically
	ChokeFlaps     int           // >0: stop toggling after this many changes (2 = choke once, unchoke, stay unchoked)
	// ExtAgain > 0: the extension handshake is sent a second time after this delay, announcing
	// ut_pex (BEP 10 allows repeated handshakes that enable more extensions).
	ExtAgain    time.Duration
	AllowedFast []uint32 // allowed-fast messages sent right after the bitfield (fast only)

	// Serving policy.
	ServeDelay            [2]time.Duration
	Snub                  bool    // accept requests, never answer
	SnubAfter             int     // >0: stop answering after this many served blocks
	CorruptP              float64 // probability that a served block carries wrong bytes
	CorruptPieces         map[int]bool
	WrongLenP             float64 // serve a block with a different length
	DupP                  float64 // send a served block twice
	UnrequestedP          float64 // send an extra block nobody asked for
	OutOfRangeP           float64 // send a block with index/begin out of range
	RejectP               float64 // answer with reject instead (fast only)
	DisconnectAfterBlocks int
	ReorderServe          bool // answer queued requests in random order

	// Leeching policy (download from the SUT).
	Leech           bool
	LeechReqs       func(p *Peer) []Req `json:"-"` // custom request generator (C03); nil = honest sequential
	LeechPipeline   int
	LeechInterested bool
	// LeechMode "fuzz": requests drawn from the generator below (valid aligned / unaligned /
	// crossing multiples of LeechCross / invalid / for missing pieces / while choked / cancels).
	LeechMode     string
	LeechCross    int64   // a boundary size worth crossing (the SUT's read-cache block size)
	LeechInvalidP float64 // probability that a generated request is invalid
	LeechChokedP  float64 // probability of requesting while choked

	// Extension protocol.
	ExtReqq       int            // reqq advertised (0 = omit)
	ExtM          map[string]any // m dictionary (nil = ut_metadata:2, ut_pex:1)
	MetadataSize  int            // advertised metadata_size (0 = real size, <0 = omit)
	MetaLimit     int            // the SUT's MaxMetadataSize (0 = unknown): a request to a peer advertising more is a C13 violation
	MetaMode      string         // "", "honest", "reject", "silent", "garbage", "wrongbytes", "wrongsize", "dup", "unrequested", "replay"
	ClientVersion string
	PEXAdded      [][]string // PEX rounds: each a list of "ip:port" sent as `added`
	PEXEvery      time.Duration
	SendPort      uint16

	// Hostile: after the handshake run this raw script instead of the normal protocol.
	Hostile func(p *Peer) `json:"-"`
	// HostileSpec: same, with a built-in generated script (JSON-able).
	HostileSpec *HostileSpec `json:"hostile,omitempty"`

	// KeepAlive period (0 = 60 s).
	KeepAlive time.Duration
}

// Honest returns the behaviour of a well-behaved seeder with all pieces.
func Honest(t *gen.Torrent, fast bool) Behavior {
	return Behavior{Fast: fast, Ext: true, Have: FullBits(t.NumPieces), Announce: "auto", ServeDelay: [2]time.Duration{0, 5 * time.Millisecond}, MetaMode: "honest"}
}

type Req struct{ Index, Begin, Length uint32 }

// Hooks let the world observe what the SUT says to this peer.
type Hooks struct {
	// OnHave is called when the SUT claims a piece (have, bitfield bit, haveall).
	OnHave func(p *Peer, index int)
	// OnMsg is called for every decoded message from the SUT.
	OnMsg func(p *Peer, m Msg)
	// OnPiece is called for every block received from the SUT with the request it answers
	// (ok=false if it answers no outstanding request).
	OnPiece func(p *Peer, m Msg, ok bool)
	// OnClose is called when the connection ends.
	OnClose func(p *Peer, err error)
	// OnRequest is called for each request from the SUT.
	OnRequest func(p *Peer, r Req)
	// OnServedPiece is called when this connection has delivered every byte of a piece in
	// well-formed blocks; corrupt tells whether any of them carried wrong bytes. mark is
	// consumed once the SUT has read the last of them.
	OnServedPiece func(p *Peer, index int, corrupt bool, mark *simnet.Mark)
	// OnActive is called (with the peer's lock held: do not call back into the peer) when the
	// piece the SUT has outstanding, un-cancelled block requests for at this peer changes
	// (on=false: no outstanding request any more).
	OnActive func(p *Peer, piece int, on bool)
}

// Limits the SUT is expected to respect towards this peer (for C09/C17 local checks).
type Limits struct {
	MaxRequestsOut     int // cap on outstanding block requests from the SUT
	DefaultRequestsOut int
}

type Peer struct {
	Name     string
	Host     *simrt.Host
	T        *gen.Torrent
	InfoHash [20]byte
	ID       [20]byte
	B        Behavior
	H        Hooks
	Lim      Limits
	Incoming bool // the SUT dialled us

	conn net.Conn
	pair *simnet.Pair
	side int
	HS   Handshake // the SUT's handshake
	rng  *simrt.Rand

	mu               sync.Mutex
	have             Bits
	SutHave          Bits
	amChoking        bool // we choke the SUT
	amInterested     bool
	sutChoking       bool // the SUT chokes us
	SutInterested    bool
	afSent           map[uint32]bool // allowed-fast we granted
	afRecv           map[uint32]bool // allowed-fast the SUT granted us
	reqIn            []Req           // requests from the SUT we have not answered
	actOn            bool
	metaFetchStarted bool
	servedBytes      map[uint32]int
	servedBegins     map[uint32]map[uint32]bool
	servedCorrupt    map[uint32]bool
	sentMalformed    bool
	hangup           bool
	actPiece         uint32
	reqOut           []Req       // our requests the SUT has not answered
	reqCancelled     map[Req]int // requests we cancelled (an answer may still arrive: cancel is advisory)
	reqChokeDropped  map[Req]int // requests dropped by a choke from the SUT (non-fast)
	served           int
	chokeMark        *simnet.Mark // set when we sent choke: consumed-by-SUT tracking
	lastChokeMark    *simnet.Mark // the latest choke we ever sent (kept across unchokes)
	reqAmbig         map[Req]bool // outstanding requests that may predate the SUT's handling of that choke
	chokePending     bool         // a choke is queued for writing, its mark not placed yet
	everUnchoked     bool
	sutExt           map[string]any // SUT's extension handshake
	sutMetaID        uint8
	sutPexID         uint8
	haveSentToUs     map[uint32]bool
	closed           bool
	closeErr         error
	wq               chan wItem
	initMark         *simnet.Mark
	lastAdvAt        time.Duration
	ClosedAt         time.Duration
	serveQ           chan struct{}
	done             chan struct{}
	BytesPayloadRx   int64 // piece payload bytes received from the SUT
	BytesPayloadTx   int64
	RecvLog          []string
	pendingServe     []Req
	metaReplay       bool
	leechKick        chan struct{}
	Received         map[Req][]byte // blocks received (leech mode)
	numPieces        int
	NoChecks         bool // disable local property checks (hostile scripts)
	NoWireChecks     bool // with NoChecks: also the C11 checks (the peer's idea of the torrent is not the SUT's)
	lastReqPiece     int64
	MetaReqs         []uint32 // ut_metadata requests received from the SUT
	PEXRecv          int      // PEX messages received from the SUT
	ExtHandshakeRx   map[string]any
	drainDone        bool
	MsgCount         int           // messages received from the SUT
	HandshakeAt      time.Duration // when the SUT's handshake was received (0 = never)
	onMetaData       func(piece int, dict map[string]any, data []byte)
}

func NewPeer(name string, host *simrt.Host, t *gen.Torrent, b Behavior, seed uint64) *Peer {
	p := &Peer{Name: name, Host: host, T: t, B: b, rng: simrt.NewRand(seed), amChoking: true, sutChoking: true,
		afSent: map[uint32]bool{}, afRecv: map[uint32]bool{}, reqCancelled: map[Req]int{}, reqChokeDropped: map[Req]int{}, haveSentToUs: map[uint32]bool{}, wq: make(chan wItem, 4096),
		serveQ: make(chan struct{}, 1), done: make(chan struct{}), leechKick: make(chan struct{}, 1), Received: map[Req][]byte{}, lastReqPiece: -1}
	if t != nil {
		p.InfoHash = t.InfoHash
		p.numPieces = t.NumPieces
		p.SutHave = NewBits(t.NumPieces)
		p.have = NewBits(t.NumPieces)
		copy(p.have, b.Have)
	}
	copy(p.ID[:], fmt.Sprintf("-RF0001-%012d", seed%1000000000000))
	return p
}

func (p *Peer) logf(f string, a ...any) {
	simrt.Logf("peer %s: "+f, append([]any{p.Name}, a...)...)
}

func (p *Peer) violate(prop, oracle, f string, a ...any) {
	if p.NoChecks && (prop != "C11" || p.NoWireChecks) {
		return
	}
	simrt.Violate(prop, oracle, "peer %s: "+f, append([]any{p.Name}, a...)...)
}

// Dial connects to addr and runs the peer until the connection ends.
func (p *Peer) Dial(addr string) error {
	simrt.Enter(p.Host)
	d := simnet.Dialer{Timeout: 10 * time.Second}
	c, err := d.Dial("tcp", addr)
	if err != nil {
		return err
	}
	p.Incoming = false
	return p.Run(c)
}

// Serve runs the peer on an accepted connection.
func (p *Peer) Serve(c net.Conn) error {
	p.Incoming = true
	return p.Run(c)
}

func (p *Peer) myHandshake() Handshake {
	h := Handshake{InfoHash: p.InfoHash, PeerID: p.ID}
	if p.B.Fast {
		h.Reserved[7] |= 0x04
	}
	if p.B.Ext {
		h.Reserved[5] |= 0x10
	}
	if p.B.DHTBit {
		h.Reserved[7] |= 0x01
	}
	return h
}

func (p *Peer) fast() bool { return p.B.Fast && p.HS.Fast() }
func (p *Peer) ext() bool  { return p.B.Ext && p.HS.Extended() }

// Run performs the handshake and the message loop. Returns when the connection ends.
func (p *Peer) Run(c net.Conn) error {
	p.conn = c
	if pc, ok := c.(interface{ SimPair() (*simnet.Pair, int) }); ok {
		p.pair, p.side = pc.SimPair()
	}
	defer close(p.done)
	defer c.Close()
	c.SetDeadline(time.Now().Add(30 * time.Second))
	if !p.Incoming {
		if _, err := c.Write(p.myHandshake().Bytes()); err != nil {
			return p.finish(err)
		}
	}
	hs, err := ReadHandshake(c)
	if err != nil {
		var we *WireError
		if errors.As(err, &we) {
			// An incoming connection that starts with something else is most likely an MSE
			// handshake (rain tries encryption first): this peer speaks plaintext only.
			p.logf("non-plaintext handshake (%v): closing", we.Why)
			simrt.Count("probe.refbt.nonplaintext_handshake", 1)
		}
		return p.finish(err)
	}
	p.HS = hs
	p.HandshakeAt = simrt.Now()
	if hs.InfoHash != p.InfoHash {
		p.violate("C11", "handshake.infohash", "SUT handshake carries info-hash %x, want %x", hs.InfoHash, p.InfoHash)
		return p.finish(errors.New("wrong infohash"))
	}
	if p.Incoming {
		if _, err := c.Write(p.myHandshake().Bytes()); err != nil {
			return p.finish(err)
		}
	}
	c.SetDeadline(time.Time{})
	p.logf("handshake ok (sut id %q fast=%v ext=%v)", string(hs.PeerID[:8]), hs.Fast(), hs.Extended())
	go p.writer()
	if p.B.Hostile != nil || p.B.HostileSpec != nil {
		go p.drain()
		if p.B.Hostile != nil {
			p.B.Hostile(p)
		} else {
			p.runHostile(*p.B.HostileSpec)
		}
		return p.finish(nil)
	}
	p.sendInitial()
	go p.server()
	if p.B.Leech {
		go p.leecher()
	}
	if p.B.ChokeFlapEvery > 0 {
		go p.flapper()
	}
	go p.keepalive()
	return p.finish(p.readLoop())
}

// drain reads and discards (still strictly decoding) while a hostile script runs.
func (p *Peer) drain() {
	defer func() {
		p.mu.Lock()
		p.drainDone = true
		p.mu.Unlock()
	}()
	for {
		if _, err := ReadMsg(p.conn, -1, 1<<22); err != nil {
			var we *WireError
			if errors.As(err, &we) {
				p.violate("C11", "wire.decode", "%v", we.Why)
			}
			return
		}
	}
}

func (p *Peer) finish(err error) error {
	p.mu.Lock()
	if p.closed {
		p.mu.Unlock()
		return p.closeErr
	}
	p.closed = true
	p.closeErr = err
	p.ClosedAt = simrt.Now()
	p.actUpdate()
	p.mu.Unlock()
	p.conn.Close()
	p.logf("connection ended: %v", err)
	if p.H.OnClose != nil {
		p.H.OnClose(p, err)
	}
	return err
}

// Close ends the connection from our side.
func (p *Peer) Close() {
	if p.conn != nil {
		p.conn.Close()
	}
}

func (p *Peer) Done() <-chan struct{} { return p.done }

func (p *Peer) IsClosed() bool {
	p.mu.Lock()
	defer p.mu.Unlock()
	return p.closed
}

type wItem struct {
	b  []byte
	fn func()
}

// Send queues raw bytes for the writer.
func (p *Peer) Send(b []byte) {
	select {
	case p.wq <- wItem{b: b}:
	case <-p.done:
	}
}

// sendFn queues a function executed by the writer in stream order.
func (p *Peer) sendFn(fn func()) {
	select {
	case p.wq <- wItem{fn: fn}:
	case <-p.done:
	}
}

// SutAnnounced reports whether the SUT has announced piece i to this peer (have/bitfield).
func (p *Peer) SutAnnounced(i int) bool {
	p.mu.Lock()
	defer p.mu.Unlock()
	return p.haveSentToUs[uint32(i)]
}

// Advertised returns the pieces this peer told the SUT it has.
func (p *Peer) Advertised() Bits {
	p.mu.Lock()
	defer p.mu.Unlock()
	return append(Bits(nil), p.have...)
}

// Settled reports whether everything this peer has advertised so far was read by the SUT
// at least a second ago (so its picker state must reflect it).
func (p *Peer) Settled() bool {
	p.mu.Lock()
	m := p.initMark
	p.mu.Unlock()
	if m == nil {
		return false
	}
	at, ok := m.Consumed()
	return ok && simrt.Now()-at > time.Second+simrt.YieldSlack()
}

// WriteRaw writes directly (hostile scripts).
func (p *Peer) WriteRaw(b []byte) error {
	_, err := p.conn.Write(b)
	return err
}

func (p *Peer) Conn() net.Conn { return p.conn }

func (p *Peer) writer() {
	for {
		select {
		case it := <-p.wq:
			if it.fn != nil {
				it.fn()
				continue
			}
			if _, err := p.conn.Write(it.b); err != nil {
				return
			}
		case <-p.done:
			return
		}
	}
}

func (p *Peer) keepalive() {
	d := p.B.KeepAlive
	if d == 0 {
		d = 60 * time.Second
	}
	t := time.NewTicker(d)
	defer t.Stop()
	for {
		select {
		case <-t.C:
			p.Send(EncKeepAlive())
		case <-p.done:
			return
		}
	}
}

func (p *Peer) extHandshake() []byte {
	m := p.B.ExtM
	if m == nil {
		m = map[string]any{"ut_metadata": 2, "ut_pex": 1}
	}
	d := map[string]any{"m": m}
	v := p.B.ClientVersion
	if v == "" {
		v = "refbt 1.0"
	}
	d["v"] = v
	if p.B.ExtReqq > 0 {
		d["reqq"] = p.B.ExtReqq
	}
	switch {
	case p.B.MetadataSize > 0:
		d["metadata_size"] = p.B.MetadataSize
	case p.B.MetadataSize == 0 && p.T != nil && p.B.MetaMode != "":
		d["metadata_size"] = len(p.T.InfoBytes)
	}
	return EncExtended(0, d, nil)
}

func (p *Peer) sendInitial() {
	n := p.numPieces
	adv := NewBits(n)
	copy(adv, p.have)
	for _, i := range p.B.LieHave {
		adv.Set(i)
	}
	p.mu.Lock()
	p.have = adv // what we advertise is what the SUT may request
	p.mu.Unlock()
	cnt := adv.Count(n)
	mode := p.B.Announce
	if mode == "" || mode == "auto" {
		switch {
		case p.fast() && cnt == n:
			mode = "haveall"
		case p.fast() && cnt == 0:
			mode = "havenone"
		default:
			mode = "bitfield"
		}
	}
	switch mode {
	case "haveall":
		p.Send(EncSimple(MsgHaveAll))
	case "havenone":
		p.Send(EncSimple(MsgHaveNone))
	case "bitfield":
		if cnt > 0 || !p.fast() {
			p.Send(EncBitfield(adv))
		} else {
			p.Send(EncSimple(MsgHaveNone))
		}
	case "haves", "lazy":
		if p.fast() {
			p.Send(EncSimple(MsgHaveNone))
		}
		for i := 0; i < n; i++ {
			if adv.Has(i) {
				p.Send(EncHave(uint32(i)))
			}
		}
	}
	p.markAdvertised()
	if p.ext() {
		p.Send(p.extHandshake())
		if p.B.ExtAgain > 0 {
			go func() {
				select {
				case <-time.After(p.B.ExtAgain):
					p.Send(EncExtended(0, map[string]any{"m": map[string]any{"ut_pex": p.myExtID("ut_pex")}}, nil))
					simrt.Count("fault.peer.ext_handshake_again", 1)
				case <-p.done:
				}
			}()
		}
	}
	if p.fast() {
		for _, i := range p.B.AllowedFast {
			p.mu.Lock()
			p.afSent[i] = true
			p.mu.Unlock()
			p.Send(EncAllowedFast(i))
		}
	}
	if p.B.SendPort != 0 {
		p.Send(EncPort(p.B.SendPort))
	}
	if p.B.Leech || p.B.LeechInterested {
		p.amInterested = true
		p.Send(EncSimple(MsgInterested))
	}
	if !p.B.NeverUnchoke {
		if p.B.UnchokeDelay > 0 {
			time.AfterFunc(p.B.UnchokeDelay, func() { p.SetChoke(false) })
		} else {
			p.SetChoke(false)
		}
	}
	if len(p.B.PEXAdded) > 0 && p.ext() {
		go p.pexLoop()
	}
	if p.B.RedundantHaves > 0 && cnt > 0 {
		rr := p.rng.Fork()
		go func() {
			for k := 0; k < p.B.RedundantHaves; k++ {
				select {
				case <-time.After(rr.Dur(0, 3*time.Second)):
				case <-p.done:
					return
				}
				i := rr.Intn(n)
				for !adv.Has(i) {
					i = (i + 1) % n
				}
				simrt.Count("fault.peer.redundant_have", 1)
				p.Send(EncHave(uint32(i)))
				p.markAdvertised()
			}
		}()
	}
}

// SetChoke changes our choke state towards the SUT.
func (p *Peer) SetChoke(choke bool) {
	p.mu.Lock()
	if p.closed || p.amChoking == choke {
		p.mu.Unlock()
		return
	}
	p.amChoking = choke
	if choke {
		// Non-fast: all outstanding requests are implicitly dropped by both sides.
		if !p.fast() {
			p.reqIn = nil
			p.pendingServe = nil
			p.actUpdate()
		}
	} else {
		p.everUnchoked = true
		p.chokeMark = nil
	}
	fastRejects := []Req(nil)
	if choke && p.fast() {
		// BEP 6: a choking peer must reject pending requests (except allowed-fast ones).
		keep := p.reqIn[:0]
		for _, r := range p.reqIn {
			if p.afSent[r.Index] {
				keep = append(keep, r)
			} else {
				fastRejects = append(fastRejects, r)
			}
		}
		p.reqIn = keep
		p.actUpdate()
		ps := p.pendingServe[:0]
		for _, r := range p.pendingServe {
			if p.afSent[r.Index] {
				ps = append(ps, r)
			}
		}
		p.pendingServe = ps
	}
	p.mu.Unlock()
	if choke {
		p.mu.Lock()
		p.chokePending = true
		p.mu.Unlock()
		p.Send(EncSimple(MsgChoke))
		p.sendFn(func() { // runs in the writer, after the choke bytes are on the wire
			if p.pair == nil {
				return
			}
			m := p.pair.MarkWritten(p.side)
			p.mu.Lock()
			if p.amChoking {
				p.chokeMark = m
			}
			p.lastChokeMark = m
			p.chokePending = false
			p.mu.Unlock()
		})
		for _, r := range fastRejects {
			p.Send(EncReject(r.Index, r.Begin, r.Length))
		}
	} else {
		p.Send(EncSimple(MsgUnchoke))
	}
	p.logf("choke=%v", choke)
}

func (p *Peer) flapper() {
	t := time.NewTicker(p.B.ChokeFlapEvery)
	defer t.Stop()
	for n := 0; p.B.ChokeFlaps == 0 || n < p.B.ChokeFlaps; n++ {
		select {
		case <-t.C:
			p.mu.Lock()
			c := p.amChoking
			p.mu.Unlock()
			simrt.Count("fault.peer.chokeflap", 1)
			p.SetChoke(!c)
		case <-p.done:
			return
		}
	}
}

func (p *Peer) pexLoop() {
	every := p.B.PEXEvery
	if every == 0 {
		every = 2 * time.Second
	}
	for _, round := range p.B.PEXAdded {
		select {
		case <-time.After(every):
		case <-p.done:
			return
		}
		p.mu.Lock()
		id := p.sutPexID
		p.mu.Unlock()
		if id == 0 {
			id = 1 // rain's fixed id; a peer may also send before knowing
		}
		var added []byte
		for _, a := range round {
			ta, err := net.ResolveTCPAddr("tcp", a)
			if err != nil || ta.IP.To4() == nil {
				continue
			}
			added = append(added, ta.IP.To4()...)
			added = append(added, byte(ta.Port>>8), byte(ta.Port))
		}
		p.Send(EncExtended(id, map[string]any{"added": added, "added.f": bytes.Repeat([]byte{0}, len(added)/6), "dropped": []byte{}}, nil))
		simrt.Count("probe.peer.pex_sent", 1)
	}
}

func (p *Peer) markAdvertised() {
	p.mu.Lock()
	p.initMark = nil
	p.mu.Unlock()
	p.sendFn(func() {
		if p.pair == nil {
			return
		}
		m := p.pair.MarkWritten(p.side)
		p.mu.Lock()
		p.initMark = m
		p.mu.Unlock()
	})
}

// HaveNow makes the peer acquire and announce a piece later in the run.
func (p *Peer) HaveNow(i int) {
	p.mu.Lock()
	if p.have.Has(i) {
		p.mu.Unlock()
		return
	}
	p.have.Set(i)
	p.mu.Unlock()
	p.Send(EncHave(uint32(i)))
	p.markAdvertised()
}

func (p *Peer) readLoop() error {
	for {
		np := p.numPieces
		if p.T == nil {
			np = -1
		}
		m, err := ReadMsg(p.conn, np, 1<<22)
		if err != nil {
			var we *WireError
			if errors.As(err, &we) {
				p.violate("C11", "wire.decode", "%v", we.Why)
			}
			return err
		}
		p.mu.Lock()
		p.MsgCount++
		p.mu.Unlock()
		if p.H.OnMsg != nil {
			p.H.OnMsg(p, m)
		}
		if WireLog {
			p.logf("<- %s", m.String())
		}
		p.handle(m)
	}
}

func (p *Peer) claimHave(i int) {
	if i < 0 || i >= p.numPieces {
		p.violate("C11", "have.range", "SUT announced piece %d of %d", i, p.numPieces)
		return
	}
	p.mu.Lock()
	p.SutHave.Set(i)
	p.mu.Unlock()
	if p.H.OnHave != nil {
		p.H.OnHave(p, i)
	}
}

func (p *Peer) handle(m Msg) {
	switch m.ID {
	case MsgKeepAlive:
	case MsgChoke:
		p.mu.Lock()
		p.sutChoking = true
		if !p.fast() {
			for _, q := range p.reqOut {
				p.reqChokeDropped[q]++
			}
			p.reqOut = nil
		}
		p.mu.Unlock()
	case MsgUnchoke:
		p.mu.Lock()
		p.sutChoking = false
		p.mu.Unlock()
		notify(p.leechKick)
	case MsgInterested:
		p.mu.Lock()
		p.SutInterested = true
		p.mu.Unlock()
	case MsgNotInterested:
		p.mu.Lock()
		p.SutInterested = false
		p.mu.Unlock()
	case MsgHave:
		p.mu.Lock()
		p.haveSentToUs[m.Index] = true
		p.mu.Unlock()
		p.claimHave(int(m.Index))
		notify(p.leechKick)
	case MsgBitfield:
		for i := 0; i < p.numPieces; i++ {
			if Bits(m.Data).Has(i) {
				p.mu.Lock()
				p.haveSentToUs[uint32(i)] = true
				p.mu.Unlock()
				p.claimHave(i)
			}
		}
		notify(p.leechKick)
	case MsgHaveAll:
		if !p.fast() {
			simrt.Count("probe.sut.fastmsg_without_negotiation", 1)
		}
		for i := 0; i < p.numPieces; i++ {
			p.mu.Lock()
			p.haveSentToUs[uint32(i)] = true
			p.mu.Unlock()
			p.claimHave(i)
		}
		notify(p.leechKick)
	case MsgHaveNone:
		if !p.fast() {
			simrt.Count("probe.sut.fastmsg_without_negotiation", 1)
		}
	case MsgAllowedFast:
		if !p.fast() {
			simrt.Count("probe.sut.fastmsg_without_negotiation", 1)
		}
		if int(m.Index) >= p.numPieces && p.T != nil {
			p.violate("C11", "allowedfast.range", "allowed-fast index %d of %d", m.Index, p.numPieces)
		}
		p.mu.Lock()
		p.afRecv[m.Index] = true
		p.mu.Unlock()
		notify(p.leechKick)
	case MsgRequest:
		p.onRequest(Req{m.Index, m.Begin, m.Length})
	case MsgCancel:
		p.mu.Lock()
		r := Req{m.Index, m.Begin, m.Length}
		p.reqIn = removeReq(p.reqIn, r)
		p.pendingServe = removeReq(p.pendingServe, r)
		p.actUpdate()
		p.mu.Unlock()
	case MsgReject:
		if !p.fast() {
			simrt.Count("probe.sut.fastmsg_without_negotiation", 1)
		}
		p.mu.Lock()
		r := Req{m.Index, m.Begin, m.Length}
		had := hasReq(p.reqOut, r)
		p.reqOut = removeReq(p.reqOut, r)
		p.mu.Unlock()
		_ = had
		notify(p.leechKick)
	case MsgPiece:
		p.onPiece(m)
	case MsgPort:
	case MsgExtended:
		p.onExtended(m)
	}
}

func notify(c chan struct{}) {
	select {
	case c <- struct{}{}:
	default:
	}
}

func removeReq(rs []Req, r Req) []Req {
	for i := range rs {
		if rs[i] == r {
			return append(rs[:i:i], rs[i+1:]...)
		}
	}
	return rs
}

func hasReq(rs []Req, r Req) bool {
	for i := range rs {
		if rs[i] == r {
			return true
		}
	}
	return false
}

// onRequest: the SUT asks us for a block. Local checks for C09/C02/C17.
func (p *Peer) onRequest(r Req) {
	if p.H.OnRequest != nil {
		p.H.OnRequest(p, r)
	}
	p.mu.Lock()
	defer p.mu.Unlock()
	t := p.T
	if t != nil {
		// C02: request geometry
		if int(r.Index) >= t.NumPieces {
			p.violate("C02", "request.index", "request for piece %d of %d", r.Index, t.NumPieces)
			return
		}
		ps := uint32(t.PieceSize(int(r.Index)))
		if r.Length == 0 || r.Length > 16384 || uint64(r.Begin)+uint64(r.Length) > uint64(ps) {
			p.violate("C02", "request.bounds", "request %v outside piece of %d bytes or longer than 16 KiB", r, ps)
			return
		}
		// C02: blocks cover the non-padding bytes of a piece only, without overlapping
		if mask := t.PadMask(int(r.Index)); mask != nil {
			for i := r.Begin; i < r.Begin+r.Length && int(i) < len(mask); i++ {
				if mask[i] {
					p.violate("C02", "request.covers_padding", "request %v includes byte %d of the piece, which belongs to a padding file", r, i)
					break
				}
			}
		}
		for _, q := range p.reqIn {
			if q.Index == r.Index && q != r && q.Begin < r.Begin+r.Length && r.Begin < q.Begin+q.Length {
				p.violate("C02", "request.overlap", "request %v overlaps the outstanding request %v", r, q)
				break
			}
		}
		if !p.fast() && p.staleRequestLocked() {
			// Sent before the SUT read our latest choke: both sides drop it (BEP 3), whatever our
			// choke state is by now. It is neither outstanding nor served.
			simrt.Count("probe.peer.stale_request_after_choke", 1)
			return
		}
		// C09: never request a piece the peer lacks
		if !p.have.Has(int(r.Index)) {
			p.violate("C09", "request.peer_lacks", "request %v for a piece this peer never advertised", r)
		}
		// C09: never request a piece the SUT already announced to us
		if p.haveSentToUs[r.Index] {
			p.violate("C09", "request.already_have", "request %v after the SUT announced that piece to this peer", r)
		}
	}
	// C09: choking
	if p.amChoking && !p.afSent[r.Index] {
		if !p.everUnchoked {
			p.violate("C09", "request.while_choked", "request %v although this peer never unchoked the SUT and the piece is not allowed-fast", r)
		} else if p.chokeMark != nil {
			// The SUT's reader may hold our choke in its buffer (and its loop in its queue)
			// for a while: only a request long after the choke was read is judged.
			if at, ok := p.chokeMark.Consumed(); ok && p.pair != nil && simrt.Now()-at > 4*p.pair.Lat+3*time.Second+simrt.YieldSlack() {
				p.violate("C09", "request.while_choked", "request %v arrived %v after the SUT read our choke and the piece is not allowed-fast", r, simrt.Now()-at)
			}
		}
	}
	// C09: one piece download per peer: all our unanswered requests belong to one piece.
	for _, q := range p.reqIn {
		if q.Index != r.Index && !p.reqAmbig[q] {
			p.violate("C09", "request.two_pieces", "request %v while %v of another piece is still outstanding", r, q)
			break
		}
	}
	if hasReq(p.reqIn, r) {
		simrt.Count("probe.peer.duplicate_request", 1)
	}
	p.reqIn = append(p.reqIn, r)
	if !p.fast() && p.lastChokeMark != nil {
		// Written by the SUT after its socket read returned our latest choke, but perhaps before
		// its event loop handled that choke (then it drops this request like the older ones):
		// served as usual, not held against a later download of another piece.
		if at, ok := p.lastChokeMark.Consumed(); ok && simrt.Now()-at < 3*time.Second+4*p.pair.Lat+simrt.YieldSlack() {
			if p.reqAmbig == nil {
				p.reqAmbig = map[Req]bool{}
			}
			p.reqAmbig[r] = true
		} else {
			delete(p.reqAmbig, r)
		}
	}
	p.actUpdate()
	// C17: outstanding requests within the limit. Requests that the SUT may have written before
	// its event loop handled our latest choke are void in its books (a peer without the fast
	// extension drops them silently) and it asks again after the unchoke: not counted.
	if lim := p.reqLimit(); lim > 0 {
		n := 0
		for _, q := range p.reqIn {
			if !p.reqAmbig[q] {
				n++
			}
		}
		if n > lim {
			p.violate("C17", "requests_out.limit", "%d outstanding block requests from the SUT, limit %d", n, lim)
		}
	}
	if p.amChoking && !p.afSent[r.Index] {
		// we are choking: fast peers reject, others ignore
		p.reqIn = removeReq(p.reqIn, r)
		p.actUpdate()
		if p.fast() {
			go p.Send(EncReject(r.Index, r.Begin, r.Length))
		}
		return
	}
	p.pendingServe = append(p.pendingServe, r)
	notify(p.serveQ)
}

// actUpdate (lock held) tracks which piece the SUT is downloading from us, as visible on the
// wire: the piece of its outstanding block requests.
func (p *Peer) actUpdate() {
	on := len(p.reqIn) > 0 && !p.closed
	var idx uint32
	if on {
		idx = p.reqIn[len(p.reqIn)-1].Index
	}
	if on == p.actOn && (!on || idx == p.actPiece) {
		return
	}
	if p.actOn && p.H.OnActive != nil {
		p.H.OnActive(p, int(p.actPiece), false)
	}
	p.actOn, p.actPiece = on, idx
	if on && p.H.OnActive != nil {
		p.H.OnActive(p, int(idx), true)
	}
}

// SutCaughtUp reports whether this peer has read everything the SUT wrote on the connection and
// the SUT has not closed its end (so the peer's view of the SUT's requests is current).
func (p *Peer) SutCaughtUp() bool {
	if p.pair == nil {
		return false
	}
	s := 1 - p.side
	return !p.pair.Closed(s) && !p.pair.Closed(p.side) && p.pair.Consumed(s) == p.pair.BytesWritten(s)
}

// staleRequestLocked: was the message just read sent by the SUT before it consumed our latest
// choke? Exact: the SUT's stream offset of the message end against what the SUT had written
// when it read the choke.
func (p *Peer) staleRequestLocked() bool {
	if p.chokePending {
		return true
	}
	m := p.lastChokeMark
	if m == nil || p.pair == nil {
		return false
	}
	if _, ok := m.Consumed(); !ok {
		return true
	}
	return p.pair.Consumed(1-p.side) <= m.ReaderWrote()
}

func (p *Peer) reqLimit() int {
	if p.Lim.MaxRequestsOut == 0 {
		return 0
	}
	lim := p.Lim.DefaultRequestsOut
	if p.B.ExtReqq > 0 && p.ext() {
		lim = p.B.ExtReqq
	}
	if lim > p.Lim.MaxRequestsOut {
		lim = p.Lim.MaxRequestsOut
	}
	return lim
}

// server answers queued requests according to the behaviour.
func (p *Peer) server() {
	for {
		select {
		case <-p.serveQ:
		case <-p.done:
			return
		}
		for {
			p.mu.Lock()
			if len(p.pendingServe) == 0 || p.closed {
				p.mu.Unlock()
				break
			}
			k := 0
			if p.B.ReorderServe {
				k = p.rng.Intn(len(p.pendingServe))
			}
			r := p.pendingServe[k]
			p.pendingServe = append(p.pendingServe[:k:k], p.pendingServe[k+1:]...)
			snub := p.B.Snub || (p.B.SnubAfter > 0 && p.served >= p.B.SnubAfter)
			p.mu.Unlock()
			if snub {
				simrt.Count("fault.peer.snub", 1)
				continue // keep it outstanding forever
			}
			if d := p.rng.Dur(p.B.ServeDelay[0], p.B.ServeDelay[1]); d > 0 {
				select {
				case <-time.After(d):
				case <-p.done:
					return
				}
			}
			p.mu.Lock()
			if !hasReq(p.reqIn, r) { // cancelled or dropped by a choke meanwhile
				p.mu.Unlock()
				continue
			}
			p.reqIn = removeReq(p.reqIn, r)
			p.actUpdate()
			p.served++
			served := p.served
			p.mu.Unlock()
			p.serveOne(r)
			p.mu.Lock()
			hang := p.hangup
			p.mu.Unlock()
			if hang {
				time.Sleep(time.Duration(1+p.rng.Intn(30)) * time.Millisecond) // queued bytes go out first
				p.Close()
				return
			}
			if p.B.DisconnectAfterBlocks > 0 && served >= p.B.DisconnectAfterBlocks {
				simrt.Count("fault.peer.disconnect", 1)
				// let queued bytes go out first
				time.Sleep(50 * time.Millisecond)
				p.Close()
				return
			}
		}
	}
}

func (p *Peer) truth(r Req) []byte {
	pc := p.T.Piece(int(r.Index))
	return pc[r.Begin : r.Begin+r.Length]
}

func (p *Peer) serveOne(r Req) {
	if p.fast() && p.rng.Chance(p.B.RejectP) {
		simrt.Count("fault.peer.reject", 1)
		p.Send(EncReject(r.Index, r.Begin, r.Length))
		return
	}
	data := append([]byte(nil), p.truth(r)...)
	lied := false
	for _, i := range p.B.LieHave {
		if int(r.Index) == i {
			lied = true
		}
	}
	corrupted, malformed := false, false
	if lied || p.B.CorruptPieces[int(r.Index)] || p.rng.Chance(p.B.CorruptP) {
		simrt.Count("fault.peer.corrupt_block", 1)
		if len(data) > 0 {
			data[p.rng.Intn(len(data))] ^= byte(1 + p.rng.Intn(255))
			corrupted = true
		}
	}
	if p.rng.Chance(p.B.WrongLenP) && len(data) > 1 {
		malformed = true
		simrt.Count("fault.peer.wronglen_block", 1)
		if p.rng.Bool() {
			data = data[:1+p.rng.Intn(len(data)-1)]
		} else {
			data = append(data, p.rng.Bytes(1+p.rng.Intn(64))...)
		}
	}
	if p.rng.Chance(p.B.OutOfRangeP) {
		malformed = true
		simrt.Count("fault.peer.outofrange_block", 1)
		switch p.rng.Intn(3) {
		case 0:
			p.Send(EncPiece(uint32(p.T.NumPieces)+uint32(p.rng.Intn(5)), r.Begin, data))
		case 1:
			p.Send(EncPiece(r.Index, uint32(p.T.PieceLen)+r.Begin, data))
		default:
			p.Send(EncPiece(r.Index, r.Begin+1, data))
		}
	}
	if p.rng.Chance(p.B.UnrequestedP) {
		malformed = true
		simrt.Count("fault.peer.unrequested_block", 1)
		oi := p.rng.Intn(p.T.NumPieces)
		ob := uint32(0)
		ol := min(16384, p.T.PieceSize(oi))
		p.Send(EncPiece(uint32(oi), ob, p.T.Piece(oi)[:ol]))
	}
	p.mu.Lock()
	p.BytesPayloadTx += int64(len(data))
	p.mu.Unlock()
	p.Send(EncPiece(r.Index, r.Begin, data))
	if p.rng.Chance(p.B.DupP) {
		simrt.Count("fault.peer.dup_block", 1)
		p.Send(EncPiece(r.Index, r.Begin, data))
	}
	p.noteServed(r, corrupted, malformed)
}

// noteServed keeps track of pieces this connection has delivered completely.
func (p *Peer) noteServed(r Req, corrupted, malformed bool) {
	p.mu.Lock()
	if malformed {
		p.sentMalformed = true
	}
	if p.servedBytes == nil {
		p.servedBytes, p.servedBegins, p.servedCorrupt = map[uint32]int{}, map[uint32]map[uint32]bool{}, map[uint32]bool{}
	}
	if p.servedBegins[r.Index] == nil {
		p.servedBegins[r.Index] = map[uint32]bool{}
	}
	if !p.servedBegins[r.Index][r.Begin] {
		p.servedBegins[r.Index][r.Begin] = true
		p.servedBytes[r.Index] += int(r.Length)
	}
	if corrupted {
		p.servedCorrupt[r.Index] = true
	}
	full := p.servedBytes[r.Index] >= p.T.PieceSize(int(r.Index))
	corrupt := p.servedCorrupt[r.Index]
	clean := !p.sentMalformed
	if full {
		delete(p.servedBytes, r.Index)
		delete(p.servedBegins, r.Index)
		delete(p.servedCorrupt, r.Index)
	}
	p.mu.Unlock()
	if !full || !clean {
		return
	}
	if p.H.OnServedPiece != nil {
		idx := int(r.Index)
		p.sendFn(func() {
			if p.pair != nil {
				p.H.OnServedPiece(p, idx, corrupt, p.pair.MarkWritten(p.side))
			}
		})
	}
	if corrupt && p.B.HangupAfterCorrupt {
		simrt.Count("fault.peer.hangup_after_corrupt", 1)
		p.mu.Lock()
		p.hangup = true
		p.mu.Unlock()
	}
}

// ---- leeching ---------------------------------------------------------------------

// onPiece: a block arrived from the SUT (we are leeching). Checks C03.
func (p *Peer) onPiece(m Msg) {
	p.mu.Lock()
	r := Req{m.Index, m.Begin, uint32(len(m.Data))}
	var match *Req
	for i := range p.reqOut { // exact match first
		q := p.reqOut[i]
		if q == r {
			match = &q
			break
		}
	}
	if match == nil && p.reqCancelled[r] == 0 && p.reqChokeDropped[r] == 0 {
		for i := range p.reqOut {
			q := p.reqOut[i]
			if q.Index == m.Index && q.Begin == m.Begin {
				match = &q
				break
			}
		}
	}
	choked := p.sutChoking
	af := p.afRecv[m.Index]
	if match != nil {
		p.reqOut = removeReq(p.reqOut, *match)
	}
	p.BytesPayloadRx += int64(len(m.Data))
	p.mu.Unlock()
	if p.H.OnPiece != nil {
		p.H.OnPiece(p, m, match != nil)
	}
	if p.T == nil {
		return
	}
	if match == nil {
		p.mu.Lock()
		nc, nd := p.reqCancelled[r], p.reqChokeDropped[r]
		if nc > 0 {
			p.reqCancelled[r]--
		} else if nd > 0 {
			p.reqChokeDropped[r]--
		}
		p.mu.Unlock()
		switch {
		case nc > 0:
			// answer to a request we cancelled: legal, still must be exact
			match = &r
			simrt.Count("probe.leech.piece_after_cancel", 1)
		case nd > 0:
			// the SUT choked us (dropping this request) and then served it anyway
			if !af {
				p.violate("C03", "piece.while_choking", "block %v sent after the SUT choked this peer (request dropped by the choke, piece not allowed-fast)", r)
				return
			}
			match = &r
		default:
			p.violate("C03", "piece.unrequested", "piece %v answers no outstanding request", r)
			return
		}
	}
	if match.Length != uint32(len(m.Data)) {
		p.violate("C03", "piece.length", "requested %v, got %d bytes", *match, len(m.Data))
		return
	}
	if !validReq(p.T, *match) {
		p.violate("C03", "piece.invalid_request_answered", "invalid request %v answered with data", *match)
		return
	}
	if !bytes.Equal(m.Data, p.truth(*match)) {
		p.violate("C03", "piece.content", "block %v differs from the torrent's content", *match)
		return
	}
	if !p.SutHave.Has(int(m.Index)) {
		p.violate("C03", "piece.not_announced", "block %v of a piece the SUT never announced to this peer", *match)
	}
	if choked && !af {
		p.violate("C03", "piece.while_choking", "block %v received while the SUT chokes this peer and the piece is not allowed-fast", *match)
	}
	p.mu.Lock()
	p.Received[*match] = m.Data
	p.mu.Unlock()
	notify(p.leechKick)
}

func validReq(t *gen.Torrent, r Req) bool {
	if int(r.Index) >= t.NumPieces || r.Length == 0 || r.Length > 16384 {
		return false
	}
	return uint64(r.Begin)+uint64(r.Length) <= uint64(t.PieceSize(int(r.Index)))
}

// WireLog makes peers log every message (debugging aid; changes the trace hash).
var WireLog bool

// Request sends a request to the SUT and records it as outstanding.
func (p *Peer) Request(r Req) {
	if WireLog {
		p.logf("-> request%v", r)
	}
	p.mu.Lock()
	p.reqOut = append(p.reqOut, r)
	p.mu.Unlock()
	p.Send(EncRequest(r.Index, r.Begin, r.Length))
}

// Cancel sends a cancel.
func (p *Peer) Cancel(r Req) {
	p.mu.Lock()
	if hasReq(p.reqOut, r) {
		p.reqCancelled[r]++
	}
	p.reqOut = removeReq(p.reqOut, r)
	p.mu.Unlock()
	p.Send(EncCancel(r.Index, r.Begin, r.Length))
}

func (p *Peer) Outstanding() int {
	p.mu.Lock()
	defer p.mu.Unlock()
	return len(p.reqOut)
}

func (p *Peer) SutChoking() bool {
	p.mu.Lock()
	defer p.mu.Unlock()
	return p.sutChoking
}

func (p *Peer) AllowedFastRecv() []uint32 {
	p.mu.Lock()
	defer p.mu.Unlock()
	var out []uint32
	for i := range p.afRecv {
		out = append(out, i)
	}
	return out
}

// leecher downloads everything the SUT has, block by block, verifying hashes.
func (p *Peer) leecher() {
	pipeline := p.B.LeechPipeline
	if pipeline <= 0 {
		pipeline = 8
	}
	var plan []Req
	if p.B.LeechReqs != nil {
		plan = p.B.LeechReqs(p)
	}
	next := 0
	sent := 0
	gotPiece := map[int]int{} // bytes received per piece
	for {
		select {
		case <-p.leechKick:
		case <-time.After(5 * time.Second):
		case <-p.done:
			return
		}
		if p.B.LeechReqs != nil {
			for next < len(plan) && p.Outstanding() < pipeline {
				p.Request(plan[next])
				next++
			}
			continue
		}
		if p.B.LeechMode == "fuzz" {
			// bounded request rate: a batch, then think time (keeps the event count of a
			// run proportional to simulated time whatever the latency is)
			batch := 0
			for p.Outstanding() < pipeline && batch < 64 && sent < 4000 {
				if !p.fuzzRequest() {
					break
				}
				batch++
				sent++
			}
			select {
			case <-time.After(p.rng.Dur(2*time.Millisecond, 80*time.Millisecond)):
			case <-p.done:
				return
			}
			continue
		}
		// honest sequential leech of pieces the SUT has
		for p.Outstanding() < pipeline {
			r, ok := p.nextHonest(gotPiece)
			if !ok {
				break
			}
			p.Request(r)
		}
	}
}

func (p *Peer) nextHonest(asked map[int]int) (Req, bool) {
	p.mu.Lock()
	defer p.mu.Unlock()
	if p.sutChoking {
		return Req{}, false
	}
	for i := 0; i < p.numPieces; i++ {
		if !p.SutHave.Has(i) || p.have.Has(i) {
			continue
		}
		ps := p.T.PieceSize(i)
		off := asked[i]
		if off >= ps {
			continue
		}
		l := min(16384, ps-off)
		asked[i] = off + l
		return Req{uint32(i), uint32(off), uint32(l)}, true
	}
	return Req{}, false
}

// ---- extension protocol ---------------------------------------------------------------

func (p *Peer) onExtended(m Msg) {
	if !p.ext() {
		simrt.Count("probe.sut.extmsg_without_negotiation", 1)
	}
	if m.ExtID == 0 {
		p.mu.Lock()
		p.ExtHandshakeRx = m.ExtDict
		p.sutExt = m.ExtDict
		if mm, ok := m.ExtDict["m"].(map[string]any); ok {
			if v, ok := mm["ut_metadata"].(int64); ok {
				p.sutMetaID = uint8(v)
			}
			if v, ok := mm["ut_pex"].(int64); ok {
				p.sutPexID = uint8(v)
			}
		} else {
			p.violate("C11", "ext.handshake", "extension handshake without an m dictionary: %v", m.ExtDict)
		}
		fetch := p.B.FetchMeta && p.sutMetaID != 0 && p.T != nil && !p.metaFetchStarted
		if fetch {
			p.metaFetchStarted = true
		}
		p.mu.Unlock()
		if len(m.ExtTrailer) != 0 {
			p.violate("C11", "ext.handshake", "extension handshake with %d trailing bytes", len(m.ExtTrailer))
		}
		if fetch {
			if sz, ok := m.ExtDict["metadata_size"].(int64); ok && sz > 0 {
				if int(sz) != len(p.T.InfoBytes) {
					p.violate("C13", "metadata.served_size", "the SUT announces metadata_size %d, its info dictionary has %d bytes", sz, len(p.T.InfoBytes))
				}
				n := (len(p.T.InfoBytes) + 16383) / 16384
				got := map[int]bool{}
				p.SetMetaDataCallback(func(piece int, dict map[string]any, data []byte) {
					if data == nil {
						simrt.Count("probe.meta.served_reject", 1)
						return
					}
					lo := piece * 16384
					if piece < 0 || lo >= len(p.T.InfoBytes) {
						p.violate("C13", "metadata.served_piece", "the SUT served metadata piece %d of %d", piece, n)
						return
					}
					want := p.T.InfoBytes[lo:min(lo+16384, len(p.T.InfoBytes))]
					if !bytes.Equal(data, want) {
						p.violate("C13", "metadata.served_bytes", "metadata piece %d served by the SUT (%d bytes) differs from its info dictionary (%d bytes expected)", piece, len(data), len(want))
					}
					if ts, _ := dict["total_size"].(int64); int(ts) != len(p.T.InfoBytes) {
						p.violate("C13", "metadata.served_size", "metadata piece %d carries total_size %d, the info dictionary has %d bytes", piece, ts, len(p.T.InfoBytes))
					}
					got[piece] = true
					simrt.Count("probe.meta.served_piece_checked", 1)
				})
				go func() {
					for i := 0; i < n; i++ {
						p.RequestMetadata(i)
						time.Sleep(p.rng.Dur(0, 200*time.Millisecond))
					}
				}()
			}
		}
		return
	}
	// Messages addressed to our ids: ut_metadata=2, ut_pex=1 by default.
	myMeta, myPex := p.myExtID("ut_metadata"), p.myExtID("ut_pex")
	switch {
	case int(m.ExtID) == myMeta && myMeta != 0:
		p.onMetadata(m)
	case int(m.ExtID) == myPex && myPex != 0:
		p.mu.Lock()
		p.PEXRecv++
		p.mu.Unlock()
		for _, k := range []string{"added", "dropped"} {
			if s, ok := m.ExtDict[k].(string); ok && len(s)%6 != 0 {
				p.violate("C11", "pex.compact", "PEX %s list of %d bytes", k, len(s))
			}
		}
	default:
		p.violate("C11", "ext.id", "extended message with id %d that this peer never offered (%v)", m.ExtID, m.ExtDict)
	}
}

func (p *Peer) myExtID(key string) int {
	m := p.B.ExtM
	if m == nil {
		m = map[string]any{"ut_metadata": 2, "ut_pex": 1}
	}
	switch v := m[key].(type) {
	case int:
		return v
	case int64:
		return int(v)
	}
	return 0
}

func (p *Peer) onMetadata(m Msg) {
	mt, _ := m.ExtDict["msg_type"].(int64)
	piece, _ := m.ExtDict["piece"].(int64)
	switch mt {
	case 0: // request
		p.mu.Lock()
		p.MetaReqs = append(p.MetaReqs, uint32(piece))
		id := p.sutMetaID
		p.mu.Unlock()
		simrt.Count("probe.peer.metadata_request", 1)
		if adv := p.advertisedMetaSize(); p.B.MetaLimit > 0 && adv > p.B.MetaLimit {
			p.violate("C13", "metadata.fetched_over_limit", "ut_metadata request for piece %d sent to a peer that announced metadata_size %d, the configured maximum is %d", piece, adv, p.B.MetaLimit)
		}
		if id == 0 {
			id = 1
		}
		info := p.T.InfoBytes
		total := len(info)
		switch p.B.MetaMode {
		case "", "silent":
			return
		case "reject":
			p.Send(EncExtended(id, map[string]any{"msg_type": 2, "piece": int(piece)}, nil))
			return
		case "garbage":
			p.Send(EncExtended(id, map[string]any{"msg_type": 1, "piece": int(piece), "total_size": total}, p.rng.Bytes(p.rng.Range(0, 20000))))
			return
		case "replay":
			// answers the first request with a block of the right size and wrong content, then
			// sends that same block again and again and nothing else
			p.mu.Lock()
			started := p.metaReplay
			p.metaReplay = true
			p.mu.Unlock()
			if started {
				return
			}
			start := int(piece) * 16384
			if start >= total || piece < 0 {
				return
			}
			blk := p.rng.Bytes(min(16384, total-start))
			d := map[string]any{"msg_type": 1, "piece": int(piece), "total_size": total}
			every := p.rng.Dur(200*time.Millisecond, 900*time.Millisecond)
			go func() {
				for !p.IsClosed() {
					p.Send(EncExtended(id, d, blk))
					simrt.Count("fault.peer.metadata_replay", 1)
					select {
					case <-time.After(every):
					case <-p.done:
						return
					}
				}
			}()
			return
		}
		start := int(piece) * 16384
		if start >= total || piece < 0 {
			p.Send(EncExtended(id, map[string]any{"msg_type": 2, "piece": int(piece)}, nil))
			return
		}
		end := min(start+16384, total)
		data := append([]byte(nil), info[start:end]...)
		switch p.B.MetaMode {
		case "wrongbytes":
			data[p.rng.Intn(len(data))] ^= 0x55
			simrt.Count("fault.peer.metadata_wrongbytes", 1)
		case "wrongsize":
			if len(data) > 1 {
				data = data[:len(data)-1-p.rng.Intn(len(data)-1)]
			}
			simrt.Count("fault.peer.metadata_wrongsize", 1)
		}
		d := map[string]any{"msg_type": 1, "piece": int(piece), "total_size": total}
		p.Send(EncExtended(id, d, data))
		if p.B.MetaMode == "dup" {
			p.Send(EncExtended(id, d, data))
		}
		if p.B.MetaMode == "unrequested" {
			p.Send(EncExtended(id, map[string]any{"msg_type": 1, "piece": int(piece) + 1 + p.rng.Intn(3), "total_size": total}, p.rng.Bytes(100)))
		}
	case 1: // data (we asked the SUT)
		if ts, ok := m.ExtDict["total_size"].(int64); !ok || ts <= 0 {
			p.violate("C11", "metadata.total_size", "ut_metadata data message without a positive total_size: %v", m.ExtDict)
		}
		if len(m.ExtTrailer) > 16384 || len(m.ExtTrailer) == 0 {
			p.violate("C11", "metadata.piece_size", "ut_metadata data message carrying %d bytes", len(m.ExtTrailer))
		}
		p.mu.Lock()
		cb := p.onMetaData
		p.mu.Unlock()
		if cb != nil {
			cb(int(piece), m.ExtDict, m.ExtTrailer)
		}
	case 2:
		p.mu.Lock()
		cb := p.onMetaData
		p.mu.Unlock()
		if cb != nil {
			cb(int(piece), m.ExtDict, nil)
		}
	default:
		p.violate("C11", "metadata.msg_type", "ut_metadata msg_type %v", m.ExtDict["msg_type"])
	}
}

// onMetaData is set by FetchMetadata.
var _ = io.EOF

func (p *Peer) SetMetaDataCallback(cb func(piece int, dict map[string]any, data []byte)) {
	p.mu.Lock()
	p.onMetaData = cb
	p.mu.Unlock()
}

// RequestMetadata asks the SUT for a metadata piece.
func (p *Peer) RequestMetadata(piece int) {
	p.mu.Lock()
	id := p.sutMetaID
	p.mu.Unlock()
	if id == 0 {
		return
	}
	p.Send(EncExtended(id, map[string]any{"msg_type": 0, "piece": piece}, nil))
}

// SutExt returns the SUT's extension handshake dictionary (nil if none yet).
func (p *Peer) SutExt() map[string]any {
	p.mu.Lock()
	defer p.mu.Unlock()
	return p.sutExt
}

// InfoHashOf is a helper.
func InfoHashOf(info []byte) [20]byte { return sha1.Sum(info) }

// fuzzRequest sends one generated request (or cancel). Returns false if nothing can be
// sent now (choked and not in the mood, or nothing announced yet).
func (p *Peer) fuzzRequest() bool {
	p.mu.Lock()
	choked := p.sutChoking
	var have []int
	for i := 0; i < p.numPieces; i++ {
		if p.SutHave.Has(i) {
			have = append(have, i)
		}
	}
	var af []uint32
	for i := range p.afRecv {
		af = append(af, i)
	}
	nout := len(p.reqOut)
	var someOut Req
	if nout > 0 {
		someOut = p.reqOut[p.rng.Intn(nout)]
	}
	p.mu.Unlock()
	r := p.rng
	t := p.T
	if choked {
		if !r.Chance(p.B.LeechChokedP) {
			// allowed-fast pieces may be requested while choked
			if len(af) > 0 && r.Chance(0.5) {
				i := int(af[r.Intn(len(af))])
				if i < t.NumPieces {
					ps := t.PieceSize(i)
					b := r.Intn(ps)
					l := 1 + r.Intn(min(16384, ps-b))
					simrt.Count("probe.leech.req_allowedfast_while_choked", 1)
					p.Request(Req{uint32(i), uint32(b), uint32(l)})
					return true
				}
			}
			return false
		}
		simrt.Count("probe.leech.req_while_choked", 1)
	}
	if nout > 0 && r.Chance(0.05) {
		simrt.Count("probe.leech.cancel", 1)
		p.Cancel(someOut)
		return true
	}
	if r.Chance(p.B.LeechInvalidP) {
		var q Req
		i := 0
		if len(have) > 0 {
			i = have[r.Intn(len(have))]
		}
		ps := uint32(t.PieceSize(i))
		k := r.Intn(9)
		if k >= 7 {
			// aim at the short last piece: begin past its real end but inside the nominal
			// piece length
			last := t.NumPieces - 1
			if lps := uint32(t.PieceSize(last)); lps < uint32(t.PieceLen) && p.SutHave.Has(last) {
				i, ps = last, lps
			} else {
				k = 4
			}
		}
		switch k {
		case 7, 8:
			b := ps + uint32(r.Intn(int(uint32(t.PieceLen)-ps)))
			q = Req{uint32(i), b, 1 + uint32(r.Intn(int(min(16384, uint32(t.PieceLen)-b))))}
		case 0:
			q = Req{uint32(i), 0, 0} // zero length
		case 1:
			q = Req{uint32(i), 0, 16385}
		case 2:
			q = Req{uint32(i), 0xfffffff0, 32} // begin+length overflows 32 bits
		case 3:
			q = Req{uint32(t.NumPieces) + uint32(r.Intn(3)), 0, 16384}
		case 4:
			q = Req{uint32(i), ps - uint32(r.Intn(int(min(ps, 100)))), 1 + uint32(r.Intn(200)) + 100} // runs past the piece end
		case 5:
			q = Req{uint32(i), ps, 1}
		default:
			q = Req{uint32(i), 0, uint32(1<<17 + r.Intn(1<<20))}
		}
		if validReq(t, q) {
			return true
		}
		simrt.Count("probe.leech.req_invalid", 1)
		p.Request(q)
		return true
	}
	// a piece the SUT has not announced
	if r.Chance(0.05) {
		for tries := 0; tries < 8; tries++ {
			i := r.Intn(t.NumPieces)
			p.mu.Lock()
			lacks := !p.SutHave.Has(i)
			p.mu.Unlock()
			if lacks {
				simrt.Count("probe.leech.req_missing_piece", 1)
				p.Request(Req{uint32(i), 0, uint32(min(16384, t.PieceSize(i)))})
				return true
			}
		}
	}
	if len(have) == 0 {
		return false
	}
	i := have[r.Intn(len(have))]
	ps := t.PieceSize(i)
	var b, l int
	switch r.Intn(4) {
	case 0: // aligned block
		nb := (ps + 16383) / 16384
		k := r.Intn(nb)
		b = k * 16384
		l = min(16384, ps-b)
	case 1: // crossing a multiple of LeechCross
		if c := int(p.B.LeechCross); c > 0 && ps > c {
			edge := c * (1 + r.Intn((ps-1)/c))
			b = max(0, edge-1-r.Intn(min(edge, 16383)))
			l = min(16384, ps-b)
			if b+l <= edge {
				l = min(ps-b, edge-b+1)
			}
			simrt.Count("probe.leech.req_crossing_cache_block", 1)
			break
		}
		fallthrough
	default: // unaligned
		b = r.Intn(ps)
		l = 1 + r.Intn(min(16384, ps-b))
	}
	p.Request(Req{uint32(i), uint32(b), uint32(l)})
	return true
}

func (p *Peer) advertisedMetaSize() int {
	switch {
	case p.B.MetadataSize > 0:
		return p.B.MetadataSize
	case p.B.MetadataSize == 0 && p.T != nil && p.B.MetaMode != "":
		return len(p.T.InfoBytes)
	}
	return 0
}
