// Package refbt is a from-scratch BitTorrent peer for the simulation, written from
// BEP 3/6/9/10/11 and independent of rain's codec. Its decoder is strict: any deviation
// from the wire format in what the system under test emits is reported (property C11).
package refbt

import (
	"encoding/binary"
	"errors"
	"fmt"
	"io"

	"github.com/cenkalti/rain/v2/internal/zzsim/gen"
)

const (
	MsgChoke         = 0
	MsgUnchoke       = 1
	MsgInterested    = 2
	MsgNotInterested = 3
	MsgHave          = 4
	MsgBitfield      = 5
	MsgRequest       = 6
	MsgPiece         = 7
	MsgCancel        = 8
	MsgPort          = 9
	MsgSuggest       = 13
	MsgHaveAll       = 14
	MsgHaveNone      = 15
	MsgReject        = 16
	MsgAllowedFast   = 17
	MsgExtended      = 20
	MsgKeepAlive     = -1
)

var Pstr = []byte("\x13BitTorrent protocol")

// Msg is a decoded peer message.
type Msg struct {
	ID                   int
	Index, Begin, Length uint32
	Data                 []byte // piece payload, bitfield bytes
	Port                 uint16
	ExtID                uint8
	ExtDict              map[string]any // decoded dictionary of an extended message
	ExtTrailer           []byte         // bytes after the dictionary (ut_metadata data)
	Raw                  []byte         // whole frame including the length prefix
}

func (m Msg) String() string {
	switch m.ID {
	case MsgKeepAlive:
		return "keepalive"
	case MsgHave, MsgAllowedFast, MsgSuggest:
		return fmt.Sprintf("%s(%d)", idName(m.ID), m.Index)
	case MsgRequest, MsgCancel, MsgReject:
		return fmt.Sprintf("%s(%d,%d,%d)", idName(m.ID), m.Index, m.Begin, m.Length)
	case MsgPiece:
		return fmt.Sprintf("piece(%d,%d,len=%d)", m.Index, m.Begin, len(m.Data))
	case MsgBitfield:
		return fmt.Sprintf("bitfield(%d bytes)", len(m.Data))
	case MsgExtended:
		return fmt.Sprintf("ext(%d,%v,+%d)", m.ExtID, m.ExtDict, len(m.ExtTrailer))
	case MsgPort:
		return fmt.Sprintf("port(%d)", m.Port)
	}
	return idName(m.ID)
}

func idName(id int) string {
	switch id {
	case MsgChoke:
		return "choke"
	case MsgUnchoke:
		return "unchoke"
	case MsgInterested:
		return "interested"
	case MsgNotInterested:
		return "notinterested"
	case MsgHave:
		return "have"
	case MsgBitfield:
		return "bitfield"
	case MsgRequest:
		return "request"
	case MsgPiece:
		return "piece"
	case MsgCancel:
		return "cancel"
	case MsgPort:
		return "port"
	case MsgSuggest:
		return "suggest"
	case MsgHaveAll:
		return "haveall"
	case MsgHaveNone:
		return "havenone"
	case MsgReject:
		return "reject"
	case MsgAllowedFast:
		return "allowedfast"
	case MsgExtended:
		return "extended"
	}
	return fmt.Sprintf("id%d", id)
}

// WireError is a strict-decoding failure: the sender violated the wire format.
type WireError struct{ Why string }

func (e *WireError) Error() string { return "wire format: " + e.Why }

func wireErr(f string, a ...any) error { return &WireError{fmt.Sprintf(f, a...)} }

// Handshake is the 68-byte BitTorrent handshake.
type Handshake struct {
	Reserved [8]byte
	InfoHash [20]byte
	PeerID   [20]byte
}

func (h Handshake) Fast() bool     { return h.Reserved[7]&0x04 != 0 }
func (h Handshake) Extended() bool { return h.Reserved[5]&0x10 != 0 }
func (h Handshake) DHT() bool      { return h.Reserved[7]&0x01 != 0 }

func (h Handshake) Bytes() []byte {
	b := append([]byte{}, Pstr...)
	b = append(b, h.Reserved[:]...)
	b = append(b, h.InfoHash[:]...)
	b = append(b, h.PeerID[:]...)
	return b
}

// ReadHandshake reads and strictly checks a handshake.
func ReadHandshake(r io.Reader) (Handshake, error) {
	var h Handshake
	var b [68]byte
	if _, err := io.ReadFull(r, b[:20]); err != nil {
		return h, err
	}
	if string(b[:20]) != string(Pstr) {
		return h, wireErr("bad protocol string %q", b[:20])
	}
	if _, err := io.ReadFull(r, b[20:]); err != nil {
		return h, err
	}
	copy(h.Reserved[:], b[20:28])
	copy(h.InfoHash[:], b[28:48])
	copy(h.PeerID[:], b[48:68])
	return h, nil
}

// ReadMsg reads one frame and decodes it strictly. numPieces < 0 means unknown (no
// bitfield-length check). maxLen bounds the accepted frame length.
func ReadMsg(r io.Reader, numPieces int, maxLen uint32) (Msg, error) {
	var lb [4]byte
	if _, err := io.ReadFull(r, lb[:]); err != nil {
		return Msg{}, err
	}
	n := binary.BigEndian.Uint32(lb[:])
	if n == 0 {
		return Msg{ID: MsgKeepAlive, Raw: lb[:]}, nil
	}
	if n > maxLen {
		return Msg{}, wireErr("frame length %d exceeds %d", n, maxLen)
	}
	body := make([]byte, n)
	if _, err := io.ReadFull(r, body); err != nil {
		if errors.Is(err, io.EOF) || errors.Is(err, io.ErrUnexpectedEOF) {
			return Msg{}, io.ErrUnexpectedEOF
		}
		return Msg{}, err
	}
	m := Msg{ID: int(body[0]), Raw: append(lb[:], body...)}
	p := body[1:]
	need := func(k int) error {
		if len(p) != k {
			return wireErr("%s message has %d payload bytes, want %d", idName(m.ID), len(p), k)
		}
		return nil
	}
	switch m.ID {
	case MsgChoke, MsgUnchoke, MsgInterested, MsgNotInterested, MsgHaveAll, MsgHaveNone:
		if err := need(0); err != nil {
			return m, err
		}
	case MsgHave, MsgAllowedFast, MsgSuggest:
		if err := need(4); err != nil {
			return m, err
		}
		m.Index = binary.BigEndian.Uint32(p)
	case MsgBitfield:
		m.Data = p
		if numPieces >= 0 {
			want := (numPieces + 7) / 8
			if len(p) != want {
				return m, wireErr("bitfield of %d bytes for %d pieces (want %d)", len(p), numPieces, want)
			}
			for i := numPieces; i < want*8; i++ {
				if p[i/8]&(0x80>>(uint(i)%8)) != 0 {
					return m, wireErr("bitfield has spare bit %d set", i)
				}
			}
		}
	case MsgRequest, MsgCancel, MsgReject:
		if err := need(12); err != nil {
			return m, err
		}
		m.Index = binary.BigEndian.Uint32(p)
		m.Begin = binary.BigEndian.Uint32(p[4:])
		m.Length = binary.BigEndian.Uint32(p[8:])
	case MsgPiece:
		if len(p) < 8 {
			return m, wireErr("piece message with %d payload bytes", len(p))
		}
		m.Index = binary.BigEndian.Uint32(p)
		m.Begin = binary.BigEndian.Uint32(p[4:])
		m.Data = p[8:]
	case MsgPort:
		if err := need(2); err != nil {
			return m, err
		}
		m.Port = binary.BigEndian.Uint16(p)
	case MsgExtended:
		if len(p) < 1 {
			return m, wireErr("empty extended message")
		}
		m.ExtID = p[0]
		v, k, err := gen.Bdecode(p[1:])
		if err != nil {
			return m, wireErr("extended message %d: %v", m.ExtID, err)
		}
		d, ok := v.(map[string]any)
		if !ok {
			return m, wireErr("extended message %d payload is not a dictionary", m.ExtID)
		}
		m.ExtDict = d
		m.ExtTrailer = p[1+k:]
	default:
		return m, wireErr("unknown message id %d", m.ID)
	}
	return m, nil
}

// ---- encoders ------------------------------------------------------------------------

func frame(id int, payload []byte) []byte {
	b := make([]byte, 5+len(payload))
	binary.BigEndian.PutUint32(b, uint32(1+len(payload)))
	b[4] = byte(id)
	copy(b[5:], payload)
	return b
}

func u32s(v ...uint32) []byte {
	b := make([]byte, 4*len(v))
	for i, x := range v {
		binary.BigEndian.PutUint32(b[4*i:], x)
	}
	return b
}

func EncSimple(id int) []byte               { return frame(id, nil) }
func EncHave(i uint32) []byte               { return frame(MsgHave, u32s(i)) }
func EncAllowedFast(i uint32) []byte        { return frame(MsgAllowedFast, u32s(i)) }
func EncBitfield(b []byte) []byte           { return frame(MsgBitfield, b) }
func EncRequest(i, b, l uint32) []byte      { return frame(MsgRequest, u32s(i, b, l)) }
func EncCancel(i, b, l uint32) []byte       { return frame(MsgCancel, u32s(i, b, l)) }
func EncReject(i, b, l uint32) []byte       { return frame(MsgReject, u32s(i, b, l)) }
func EncPiece(i, b uint32, d []byte) []byte { return frame(MsgPiece, append(u32s(i, b), d...)) }
func EncPort(p uint16) []byte               { return frame(MsgPort, []byte{byte(p >> 8), byte(p)}) }
func EncKeepAlive() []byte                  { return []byte{0, 0, 0, 0} }
func EncExtended(id uint8, dict map[string]any, trailer []byte) []byte {
	p := append([]byte{id}, gen.Bencode(dict)...)
	p = append(p, trailer...)
	return frame(MsgExtended, p)
}

// Bitfield helpers (MSB first).
type Bits []byte

func NewBits(n int) Bits      { return make(Bits, (n+7)/8) }
func (b Bits) Set(i int)      { b[i/8] |= 0x80 >> (uint(i) % 8) }
func (b Bits) Clear(i int)    { b[i/8] &^= 0x80 >> (uint(i) % 8) }
func (b Bits) Has(i int) bool { return i/8 < len(b) && b[i/8]&(0x80>>(uint(i)%8)) != 0 }
func (b Bits) Count(n int) int {
	c := 0
	for i := 0; i < n; i++ {
		if b.Has(i) {
			c++
		}
	}
	return c
}
func FullBits(n int) Bits {
	b := NewBits(n)
	for i := 0; i < n; i++ {
		b.Set(i)
	}
	return b
}
