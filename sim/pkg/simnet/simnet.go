// Package simnet is the in-memory network of the simulation. It doubles as the drop-in
// replacement for package net inside the rain sources (simgen rewrites `import "net"` to
// this package): every identifier of package net that rain uses is re-exported, and the
// ones that would touch the kernel (Dialer, ListenTCP, ListenUDP, Listen, DefaultResolver,
// InterfaceAddrs) are simulated.
//
// All blocking is done with channels and fake timers created inside the synctest bubble,
// so every wait is "durable" and fake time can advance past it.
package simnet

import (
	"context"
	"errors"
	"fmt"
	"io"
	"net"
	"os"
	"sort"
	"strconv"
	"sync"
	"syscall"
	"time"

	"github.com/cenkalti/rain/v2/internal/zzsim/simrt"
)

// ---- re-exports of package net ------------------------------------------------

type (
	Conn       = net.Conn
	Addr       = net.Addr
	IP         = net.IP
	IPNet      = net.IPNet
	IPMask     = net.IPMask
	IPAddr     = net.IPAddr
	TCPAddr    = net.TCPAddr
	UDPAddr    = net.UDPAddr
	OpError    = net.OpError
	Error      = net.Error
	DNSError   = net.DNSError
	AddrError  = net.AddrError
	Listener   = net.Listener
	PacketConn = net.PacketConn
)

const (
	IPv4len = net.IPv4len
	IPv6len = net.IPv6len
)

var (
	ParseIP        = net.ParseIP
	ParseCIDR      = net.ParseCIDR
	SplitHostPort  = net.SplitHostPort
	JoinHostPort   = net.JoinHostPort
	CIDRMask       = net.CIDRMask
	IPv4           = net.IPv4
	IPv4Mask       = net.IPv4Mask
	ResolveUDPAddr = net.ResolveUDPAddr
	ResolveTCPAddr = net.ResolveTCPAddr
	ErrClosed      = net.ErrClosed
	Pipe           = net.Pipe
)

// InterfaceAddrs reports the one interface of the simulated machine.
func InterfaceAddrs() ([]net.Addr, error) {
	return []net.Addr{&net.IPNet{IP: net.ParseIP(SUTAddr).To4(), Mask: net.CIDRMask(24, 32)}}, nil
}

// SUTAddr is the (public) address of the machine the system under test runs on. rain reads
// its interface addresses once at package initialisation, before any simulated host exists,
// so the address is a constant of the simulation.
const SUTAddr = "30.0.0.1"

// ---- world --------------------------------------------------------------------

// Config holds the network behaviour knobs of a world (set from the plan).
type Config struct {
	LatMin, LatMax time.Duration // one-way latency range per connection
	Jitter         time.Duration // extra per-fragment delay
	// Fragmentation mode: 0 mixed, 1 byte dribble heavy, 2 MSS-like, 3 whole writes.
	FragMode int
	Window   int // per-direction buffer (bytes in flight + unread) before Write blocks
	// UDP
	UDPLoss, UDPDup float64
	UDPDelayMax     time.Duration
	// UDPBurstP: probability that a datagram is delivered in the same instant as the previous
	// one to the same destination that is still on its way (a batch in a queue on the path).
	UDPBurstP float64
	// Read chunking: probability that a Read returns less than what is available.
	ShortReadP float64
}

func DefaultConfig() Config {
	return Config{LatMin: time.Millisecond, LatMax: 40 * time.Millisecond, Jitter: 2 * time.Millisecond, Window: 256 << 10, UDPDelayMax: 50 * time.Millisecond, ShortReadP: 0.3}
}

// DialVerdict is what a dial hook can decide.
type DialVerdict int

const (
	DialOK DialVerdict = iota
	DialRefuse
	DialBlackhole // never answers: the dialer times out
)

// DialRecord is one entry of the dial log.
type DialRecord struct {
	At      time.Duration
	From    string // host name
	FromIP  string
	To      string // ip:port
	Result  string // "ok", "refused", "timeout", "canceled", "blackhole"
	Proto   string // tcp / udp
	ConnID  int
	Purpose string
}

type Net struct {
	mu        sync.Mutex
	Cfg       Config
	rng       *simrt.Rand
	listeners map[string]*TCPListener
	udp       map[string]*UDPConn
	udpLast   map[string]time.Duration
	dns       map[string]DNSEntry
	eph       map[string]int
	conns     []*Pair
	Dials     []DialRecord
	UDPSent   []UDPRecord
	// OnDial decides the outcome of a TCP dial (nil = OK when a listener exists).
	OnDial func(from *simrt.Host, to *net.TCPAddr) DialVerdict
	// OnConnect is called for each established pair before either side can use it.
	OnConnect func(p *Pair)
	// OnUDP observes/filters datagrams: return false to drop.
	OnUDP func(from, to *net.UDPAddr, b []byte) bool
	// partitioned host-IP pairs ("a|b" with a<b)
	parts map[string]bool
	nconn int
}

type DNSEntry struct {
	IPs   []net.IP
	Delay time.Duration
	Err   string // "nxdomain", "timeout", ""
}

type UDPRecord struct {
	At       time.Duration
	From, To string
	Len      int
}

// Debug logs every fragment (debugging aid).
var Debug bool

// W is the network of the current process (one world per process).
var W *Net

func New(seed uint64) *Net {
	n := &Net{Cfg: DefaultConfig(), rng: simrt.NewRand(seed ^ 0x6e6574), listeners: map[string]*TCPListener{}, udp: map[string]*UDPConn{}, dns: map[string]DNSEntry{}, eph: map[string]int{}, parts: map[string]bool{}}
	W = n
	return n
}

func (n *Net) SetDNS(host string, e DNSEntry) { n.mu.Lock(); n.dns[host] = e; n.mu.Unlock() }

func pkey(a, b string) string {
	if a > b {
		a, b = b, a
	}
	return a + "|" + b
}

// Partition blocks traffic between two host IPs (existing connections stall).
func (n *Net) Partition(a, b string, on bool) {
	n.mu.Lock()
	if on {
		n.parts[pkey(a, b)] = true
	} else {
		delete(n.parts, pkey(a, b))
	}
	n.mu.Unlock()
	simrt.Logf("net partition %s %s %v", a, b, on)
}

func (n *Net) partitioned(a, b string) bool {
	n.mu.Lock()
	defer n.mu.Unlock()
	return n.parts[pkey(a, b)]
}

func curHost(op string) *simrt.Host {
	h := simrt.Cur()
	if h == nil {
		panic("simnet: " + op + " called from a goroutine with no simulated host")
	}
	return h
}

func (n *Net) ephemeral(ip string) int {
	p := n.eph[ip]
	if p == 0 {
		p = 40000
	}
	p++
	n.eph[ip] = p
	return p
}

// Pairs returns all TCP connection pairs ever created.
func (n *Net) Pairs() []*Pair {
	n.mu.Lock()
	defer n.mu.Unlock()
	return append([]*Pair(nil), n.conns...)
}

// ---- errors -------------------------------------------------------------------

func opErr(op string, err error) error { return &net.OpError{Op: op, Net: "tcp", Err: err} }

var errTimeout error = &timeoutError{}

type timeoutError struct{}

func (*timeoutError) Error() string   { return "i/o timeout" }
func (*timeoutError) Timeout() bool   { return true }
func (*timeoutError) Temporary() bool { return true }
func (*timeoutError) Is(err error) bool {
	return err == os.ErrDeadlineExceeded || err == context.DeadlineExceeded
}

// ---- TCP listener ----------------------------------------------------------------

type TCPListener struct {
	n      *Net
	addr   *net.TCPAddr
	key    string
	acc    chan *tcpConn
	closed chan struct{}
	once   sync.Once
	Host   *simrt.Host
}

// ListenTCP simulates net.ListenTCP.
func ListenTCP(network string, laddr *net.TCPAddr) (*TCPListener, error) {
	h := curHost("ListenTCP")
	return W.listen(h, laddr)
}

// Listen simulates net.Listen for tcp networks.
func Listen(network, address string) (net.Listener, error) {
	h := curHost("Listen")
	host, portS, err := net.SplitHostPort(address)
	if err != nil {
		return nil, err
	}
	port, _ := strconv.Atoi(portS)
	l, err := W.listen(h, &net.TCPAddr{IP: net.ParseIP(host), Port: port})
	if err != nil {
		return nil, err
	}
	return l, nil
}

func (n *Net) listen(h *simrt.Host, laddr *net.TCPAddr) (*TCPListener, error) {
	ip := h.IP
	if laddr != nil && laddr.IP != nil && !laddr.IP.IsUnspecified() && !laddr.IP.IsLoopback() {
		ip = laddr.IP.String()
	}
	n.mu.Lock()
	defer n.mu.Unlock()
	port := 0
	if laddr != nil {
		port = laddr.Port
	}
	if port == 0 {
		port = n.ephemeral(ip)
	}
	key := ip + ":" + strconv.Itoa(port)
	if _, ok := n.listeners[key]; ok {
		return nil, &net.OpError{Op: "listen", Net: "tcp", Addr: laddr, Err: os.NewSyscallError("bind", syscall.EADDRINUSE)}
	}
	l := &TCPListener{n: n, addr: &net.TCPAddr{IP: net.ParseIP(ip).To4(), Port: port}, key: key, acc: make(chan *tcpConn, 1024), closed: make(chan struct{}), Host: h}
	n.listeners[key] = l
	simrt.Logf("net listen %s %s", h.Name, key)
	return l, nil
}

func (l *TCPListener) Accept() (net.Conn, error) {
	select {
	case <-l.closed:
		return nil, opErr("accept", net.ErrClosed)
	default:
	}
	select {
	case c := <-l.acc:
		simrt.Logf("net accept %s conn#%d from %s", l.key, c.pair.ID, c.raddr)
		return c, nil
	case <-l.closed:
		return nil, opErr("accept", net.ErrClosed)
	}
}

func (l *TCPListener) AcceptTCP() (net.Conn, error) { return l.Accept() }

func (l *TCPListener) Close() error {
	l.once.Do(func() {
		l.n.mu.Lock()
		delete(l.n.listeners, l.key)
		l.n.mu.Unlock()
		close(l.closed)
		simrt.Logf("net unlisten %s", l.key)
		// Connections queued but never accepted are reset.
		for {
			select {
			case c := <-l.acc:
				c.pair.Reset("listener closed")
			default:
				return
			}
		}
	})
	return nil
}

func (l *TCPListener) Addr() net.Addr { return l.addr }

// Listening reports whether something listens on ip:port now.
func (n *Net) Listening(addr string) bool {
	n.mu.Lock()
	defer n.mu.Unlock()
	_, ok := n.listeners[addr]
	return ok
}

// ListenerKeys returns the sorted addresses of all listeners.
func (n *Net) ListenerKeys() []string {
	n.mu.Lock()
	defer n.mu.Unlock()
	ks := make([]string, 0, len(n.listeners))
	for k := range n.listeners {
		ks = append(ks, k)
	}
	sort.Strings(ks)
	return ks
}

// ---- Dialer ----------------------------------------------------------------------

type Dialer struct {
	Timeout   time.Duration
	Deadline  time.Time
	LocalAddr net.Addr
	KeepAlive time.Duration
}

func (d *Dialer) Dial(network, address string) (net.Conn, error) {
	return d.DialContext(context.Background(), network, address)
}

func Dial(network, address string) (net.Conn, error) {
	var d Dialer
	return d.Dial(network, address)
}

func DialTimeout(network, address string, timeout time.Duration) (net.Conn, error) {
	d := Dialer{Timeout: timeout}
	return d.Dial(network, address)
}

func (d *Dialer) DialContext(ctx context.Context, network, address string) (net.Conn, error) {
	h := curHost("Dial")
	n := W
	host, portS, err := net.SplitHostPort(address)
	if err != nil {
		return nil, &net.OpError{Op: "dial", Net: network, Err: err}
	}
	port, _ := strconv.Atoi(portS)
	ip := net.ParseIP(host)
	if ip == nil {
		addrs, err := DefaultResolver.LookupIPAddr(ctx, host)
		if err != nil {
			return nil, &net.OpError{Op: "dial", Net: network, Err: err}
		}
		ip = addrs[0].IP
	}
	if ip.IsLoopback() {
		ip = net.ParseIP(h.IP)
	}
	to := &net.TCPAddr{IP: ip.To4(), Port: port}
	if to.IP == nil {
		return nil, &net.OpError{Op: "dial", Net: network, Addr: to, Err: errors.New("simnet: not an IPv4 address")}
	}
	if d.Timeout > 0 {
		var cancel func()
		ctx, cancel = context.WithTimeout(ctx, d.Timeout)
		defer cancel()
	}
	rec := DialRecord{At: simrt.Now(), From: h.Name, FromIP: h.IP, To: to.String(), Proto: "tcp"}
	finish := func(res string, id int) {
		rec.Result = res
		rec.ConnID = id
		n.mu.Lock()
		n.Dials = append(n.Dials, rec)
		n.mu.Unlock()
		simrt.Logf("net dial %s -> %s %s conn#%d", h.Name, to, res, id)
	}
	verdict := DialOK
	if n.OnDial != nil {
		verdict = n.OnDial(h, to)
	}
	n.mu.Lock()
	lat := n.rng.Dur(n.Cfg.LatMin, n.Cfg.LatMax)
	n.mu.Unlock()
	if n.partitioned(h.IP, to.IP.String()) {
		verdict = DialBlackhole
	}
	if verdict == DialBlackhole {
		<-ctx.Done()
		finish("timeout", 0)
		return nil, &net.OpError{Op: "dial", Net: network, Addr: to, Err: ctxErr(ctx)}
	}
	// one round trip
	t := time.NewTimer(2 * lat)
	select {
	case <-t.C:
	case <-ctx.Done():
		t.Stop()
		finish("canceled", 0)
		return nil, &net.OpError{Op: "dial", Net: network, Addr: to, Err: ctxErr(ctx)}
	}
	n.mu.Lock()
	l := n.listeners[to.String()]
	if l == nil || verdict == DialRefuse {
		n.mu.Unlock()
		finish("refused", 0)
		return nil, &net.OpError{Op: "dial", Net: network, Addr: to, Err: os.NewSyscallError("connect", syscall.ECONNREFUSED)}
	}
	n.nconn++
	id := n.nconn
	local := &net.TCPAddr{IP: net.ParseIP(h.IP).To4(), Port: n.ephemeral(h.IP)}
	p := newPair(n, id, local, to, lat, h, l.Host)
	n.conns = append(n.conns, p)
	n.mu.Unlock()
	if n.OnConnect != nil {
		n.OnConnect(p)
	}
	select {
	case l.acc <- p.B:
	default:
		finish("refused", 0)
		return nil, &net.OpError{Op: "dial", Net: network, Addr: to, Err: os.NewSyscallError("connect", syscall.ECONNREFUSED)}
	}
	finish("ok", id)
	return p.A, nil
}

func ctxErr(ctx context.Context) error {
	if errors.Is(ctx.Err(), context.DeadlineExceeded) {
		return errTimeout
	}
	return ctx.Err()
}

// ---- TCP connection pair -----------------------------------------------------------

// Pair is one TCP connection: A is the dialing side, B the accepted side.
type Pair struct {
	ID           int
	n            *Net
	A, B         *tcpConn
	HostA, HostB *simrt.Host
	Lat          time.Duration
	// Tap observes bytes as they are written (dir 0: A->B, 1: B->A). Set in OnConnect.
	Tap func(dir int, b []byte)
	// Faults
	mu        sync.Mutex
	stallTill [2]time.Duration // deliveries of direction d held until this fake time
	resetAt   [2]int64         // reset the connection when total bytes written in dir d reaches this (0 = off)
	OpenedAt  time.Duration
}

type half struct { // data flowing towards one reader
	mu        sync.Mutex
	buf       []byte // arrived, readable
	inflight  int    // written, not yet arrived
	lastArr   time.Duration
	wclosed   bool  // writer closed: EOF after buf drained and inflight==0
	reset     error // connection reset: both ends fail
	rclosed   bool  // reader closed its end
	readable  chan struct{}
	writable  chan struct{}
	total     int64 // bytes ever written in this direction
	delivered int64
	consumed  int64 // bytes handed to the reader's Read calls
	queue     []frag
	marks     []*Mark
	other     *half // the opposite direction of the same connection
}

// Mark records when the reader of a direction has consumed the stream up to an offset.
type Mark struct {
	h    *half
	Off  int64
	at   time.Duration
	done bool
	// readerWrote: how many bytes the consuming side had written in the opposite direction at
	// the moment it consumed the mark (everything before that offset was sent in ignorance of
	// the marked message).
	readerWrote int64
}

// ReaderWrote: see Mark.readerWrote (valid once Consumed reports true).
func (m *Mark) ReaderWrote() int64 {
	m.h.mu.Lock()
	defer m.h.mu.Unlock()
	return m.readerWrote
}

// Consumed reports whether (and when) the reader has read past the mark.
func (m *Mark) Consumed() (time.Duration, bool) {
	m.h.mu.Lock()
	defer m.h.mu.Unlock()
	return m.at, m.done
}

// MarkWritten returns a mark at the current end of what `side` has written so far.
func (p *Pair) MarkWritten(side int) *Mark {
	c := p.A
	if side == 1 {
		c = p.B
	}
	h := c.out
	h.mu.Lock()
	defer h.mu.Unlock()
	m := &Mark{h: h, Off: h.total}
	if h.consumed >= m.Off {
		m.done, m.at = true, simrt.Now()
		m.readerWrote = h.other.totalNoLock()
	} else {
		h.marks = append(h.marks, m)
	}
	return m
}

// SimPair exposes the pair and side of a simulated TCP connection.
func (c *tcpConn) SimPair() (*Pair, int) { return c.pair, c.side }

// Consumed returns how many bytes written by `side` the other end has read.
func (p *Pair) Consumed(side int) int64 {
	c := p.A
	if side == 1 {
		c = p.B
	}
	c.out.mu.Lock()
	defer c.out.mu.Unlock()
	return c.out.consumed
}

// totalNoLock reads the bytes-written counter of a direction without its lock (one goroutine
// runs at a time in the simulation; taking the lock here would order the two halves' locks).
func (h *half) totalNoLock() int64 { return h.total }

func newHalf() *half {
	return &half{readable: make(chan struct{}, 1), writable: make(chan struct{}, 1)}
}

func notify(c chan struct{}) {
	select {
	case c <- struct{}{}:
	default:
	}
}

type tcpConn struct {
	pair         *Pair
	side         int // 0 = A, 1 = B
	in, out      *half
	laddr, raddr *net.TCPAddr
	closeOnce    sync.Once
	closed       chan struct{}
	rd, wd       deadline
	// ReadChunk, if set, bounds each Read (test harness use).
	host *simrt.Host
}

func newPair(n *Net, id int, a, b *net.TCPAddr, lat time.Duration, ha, hb *simrt.Host) *Pair {
	p := &Pair{ID: id, n: n, Lat: lat, HostA: ha, HostB: hb, OpenedAt: simrt.Now()}
	ab, ba := newHalf(), newHalf()
	ab.other, ba.other = ba, ab
	p.A = &tcpConn{pair: p, side: 0, in: ba, out: ab, laddr: a, raddr: b, closed: make(chan struct{}), rd: makeDeadline(), wd: makeDeadline(), host: ha}
	p.B = &tcpConn{pair: p, side: 1, in: ab, out: ba, laddr: b, raddr: a, closed: make(chan struct{}), rd: makeDeadline(), wd: makeDeadline(), host: hb}
	return p
}

// AddrA / AddrB return the endpoint addresses.
func (p *Pair) AddrA() *net.TCPAddr { return p.A.laddr }
func (p *Pair) AddrB() *net.TCPAddr { return p.B.laddr }

// Closed reports whether the given side (0=A dialer, 1=B acceptor) has closed its end or the
// connection was reset.
func (p *Pair) Closed(side int) bool {
	c := p.A
	if side == 1 {
		c = p.B
	}
	select {
	case <-c.closed:
		return true
	default:
	}
	c.in.mu.Lock()
	defer c.in.mu.Unlock()
	return c.in.reset != nil
}

// BytesWritten returns total bytes written by the given side.
func (p *Pair) BytesWritten(side int) int64 {
	c := p.A
	if side == 1 {
		c = p.B
	}
	c.out.mu.Lock()
	defer c.out.mu.Unlock()
	return c.out.total
}

// Reset tears the connection down abruptly: pending data is dropped, both sides see errors.
func (p *Pair) Reset(why string) {
	simrt.Logf("net reset conn#%d %s", p.ID, why)
	simrt.Count("fault.net.reset", 1)
	err := os.NewSyscallError("read", syscall.ECONNRESET)
	for _, h := range []*half{p.A.in, p.A.out} {
		h.mu.Lock()
		if h.reset == nil {
			h.reset = err
		}
		h.buf = nil
		h.mu.Unlock()
		notify(h.readable)
		notify(h.writable)
	}
}

// Stall holds delivery in direction dir (0: A->B, 1: B->A) for d of fake time.
func (p *Pair) Stall(dir int, d time.Duration) {
	p.mu.Lock()
	t := simrt.Now() + d
	if t > p.stallTill[dir] {
		p.stallTill[dir] = t
	}
	p.mu.Unlock()
	simrt.Count("fault.net.stall", 1)
	simrt.Logf("net stall conn#%d dir%d %v", p.ID, dir, d)
}

// ResetAfter arms a reset when side `side` has written `n` bytes in total.
func (p *Pair) ResetAfter(side int, n int64) {
	p.mu.Lock()
	p.resetAt[side] = n
	p.mu.Unlock()
}

func (c *tcpConn) LocalAddr() net.Addr  { return c.laddr }
func (c *tcpConn) RemoteAddr() net.Addr { return c.raddr }

func (c *tcpConn) SetDeadline(t time.Time) error {
	if c.isClosed() {
		return opErr("set", net.ErrClosed)
	}
	c.rd.set(t)
	c.wd.set(t)
	return nil
}
func (c *tcpConn) SetReadDeadline(t time.Time) error {
	if c.isClosed() {
		return opErr("set", net.ErrClosed)
	}
	c.rd.set(t)
	return nil
}
func (c *tcpConn) SetWriteDeadline(t time.Time) error {
	if c.isClosed() {
		return opErr("set", net.ErrClosed)
	}
	c.wd.set(t)
	return nil
}

func (c *tcpConn) isClosed() bool {
	select {
	case <-c.closed:
		return true
	default:
		return false
	}
}

func (c *tcpConn) Close() error {
	c.closeOnce.Do(func() {
		close(c.closed)
		simrt.Logf("net close conn#%d side%d", c.pair.ID, c.side)
		// our outgoing half: writer closed -> peer gets EOF after draining.
		c.out.mu.Lock()
		c.out.wclosed = true
		c.out.mu.Unlock()
		notify(c.out.readable)
		// our incoming half: reader closed -> peer's writes fail.
		c.in.mu.Lock()
		c.in.rclosed = true
		c.in.buf = nil
		c.in.mu.Unlock()
		notify(c.in.writable)
	})
	return nil
}

// CloseWrite half-closes (peer reads EOF after pending data).
func (c *tcpConn) CloseWrite() error {
	c.out.mu.Lock()
	c.out.wclosed = true
	c.out.mu.Unlock()
	notify(c.out.readable)
	return nil
}

func (c *tcpConn) Read(p []byte) (int, error) {
	h := c.in
	for {
		if c.isClosed() {
			return 0, opErr("read", net.ErrClosed)
		}
		h.mu.Lock()
		if h.reset != nil {
			err := h.reset
			h.mu.Unlock()
			return 0, opErr("read", err)
		}
		if len(h.buf) > 0 {
			if len(p) == 0 {
				h.mu.Unlock()
				return 0, nil
			}
			n := len(h.buf)
			if n > len(p) {
				n = len(p)
			}
			if n > 1 {
				c.pair.n.mu.Lock()
				if c.pair.n.rng.Chance(c.pair.n.Cfg.ShortReadP) {
					n = 1 + c.pair.n.rng.Intn(n)
				}
				c.pair.n.mu.Unlock()
			}
			copy(p, h.buf[:n])
			h.buf = h.buf[n:]
			h.consumed += int64(n)
			if len(h.marks) > 0 {
				keep := h.marks[:0]
				for _, m := range h.marks {
					if h.consumed >= m.Off {
						m.done, m.at = true, simrt.Now()
						m.readerWrote = h.other.totalNoLock()
					} else {
						keep = append(keep, m)
					}
				}
				h.marks = keep
			}
			more := len(h.buf) > 0
			h.mu.Unlock()
			if more {
				notify(h.readable)
			}
			notify(h.writable)
			return n, nil
		}
		if h.wclosed && h.inflight == 0 {
			h.mu.Unlock()
			return 0, io.EOF
		}
		h.mu.Unlock()
		if c.rd.expired() {
			return 0, opErr("read", errTimeout)
		}
		select {
		case <-h.readable:
		case <-c.closed:
		case <-c.rd.wait():
		}
	}
}

func (c *tcpConn) Write(p []byte) (int, error) {
	h := c.out
	total := 0
	for len(p) > 0 {
		if c.isClosed() {
			return total, opErr("write", net.ErrClosed)
		}
		if c.wd.expired() {
			return total, opErr("write", errTimeout)
		}
		h.mu.Lock()
		if h.reset != nil {
			h.mu.Unlock()
			return total, opErr("write", os.NewSyscallError("write", syscall.ECONNRESET))
		}
		if h.rclosed {
			h.mu.Unlock()
			return total, opErr("write", os.NewSyscallError("write", syscall.EPIPE))
		}
		if h.wclosed {
			h.mu.Unlock()
			return total, opErr("write", net.ErrClosed)
		}
		space := c.pair.n.Cfg.Window - (len(h.buf) + h.inflight)
		if space <= 0 {
			h.mu.Unlock()
			select {
			case <-h.writable:
			case <-c.closed:
			case <-c.wd.wait():
			}
			continue
		}
		n := len(p)
		if n > space {
			n = space
		}
		chunk := append([]byte(nil), p[:n]...)
		p = p[n:]
		total += n
		h.total += int64(n)
		tot := h.total
		h.mu.Unlock()
		if tap := c.pair.Tap; tap != nil {
			tap(c.side, chunk)
		}
		c.pair.mu.Lock()
		ra := c.pair.resetAt[c.side]
		c.pair.mu.Unlock()
		if ra > 0 && tot >= ra {
			// deliver only the part before the reset point, then reset
			keep := int64(len(chunk)) - (tot - ra)
			if keep > 0 {
				c.send(chunk[:keep])
			}
			c.pair.ResetAfter(c.side, 0)
			p2 := c.pair
			time.AfterFunc(p2.Lat, func() { p2.Reset("reset-after-bytes") })
			return total, nil
		}
		c.send(chunk)
	}
	return total, nil
}

// send cuts b into fragments and schedules their arrival.
func (c *tcpConn) send(b []byte) {
	h := c.out
	n := c.pair.n
	for len(b) > 0 {
		n.mu.Lock()
		sz := fragSize(n.rng, n.Cfg.FragMode, len(b))
		jit := n.rng.Dur(0, n.Cfg.Jitter)
		n.mu.Unlock()
		frag := b[:sz]
		b = b[sz:]
		now := simrt.Now()
		arr := now + c.pair.Lat + jit
		c.pair.mu.Lock()
		if st := c.pair.stallTill[c.side]; arr < st {
			arr = st
		}
		c.pair.mu.Unlock()
		h.mu.Lock()
		if arr < h.lastArr {
			arr = h.lastArr
		}
		h.lastArr = arr
		h.inflight += len(frag)
		h.mu.Unlock()
		if Debug {
			simrt.Logf("net dbg send conn#%d side%d %d bytes arr=%v", c.pair.ID, c.side, len(frag), arr)
		}
		c.deliverAt(arr-now, frag)
	}
}

type frag struct {
	arr  time.Duration
	data []byte
}

// deliverAt queues a fragment for arrival after d. Fragments of one direction arrive in
// FIFO order whatever order their timers fire in (equal deadlines fire in seeded-random order).
func (c *tcpConn) deliverAt(d time.Duration, fr []byte) {
	h := c.out
	h.mu.Lock()
	h.queue = append(h.queue, frag{arr: simrt.Now() + d, data: fr})
	h.mu.Unlock()
	time.AfterFunc(d, c.pump)
}

// pump moves every queued fragment whose arrival time has come into the readable buffer.
func (c *tcpConn) pump() {
	h := c.out
	p := c.pair
	now := simrt.Now()
	if p.n.partitioned(p.HostA.IP, p.HostB.IP) {
		time.AfterFunc(200*time.Millisecond, c.pump)
		return
	}
	p.mu.Lock()
	st := p.stallTill[c.side]
	p.mu.Unlock()
	if now < st {
		time.AfterFunc(st-now, c.pump)
		return
	}
	h.mu.Lock()
	moved := false
	for len(h.queue) > 0 && h.queue[0].arr <= now {
		fr := h.queue[0]
		h.queue = h.queue[1:]
		h.inflight -= len(fr.data)
		if h.reset == nil && !h.rclosed {
			h.buf = append(h.buf, fr.data...)
			h.delivered += int64(len(fr.data))
		}
		moved = true
	}
	h.mu.Unlock()
	if Debug {
		simrt.Logf("net dbg pump conn#%d side%d moved=%v queue=%d", c.pair.ID, c.side, moved, len(h.queue))
	}
	if moved {
		notify(h.readable)
	}
}

func fragSize(r *simrt.Rand, mode, n int) int {
	if n <= 1 {
		return n
	}
	var sz int
	m := mode
	if m == 0 {
		m = 1 + r.Intn(3)
		if r.Chance(0.5) {
			m = 3
		}
	}
	switch m {
	case 1: // dribble (bounded: large writes are cut into at most a handful of pieces)
		if n <= 200 {
			sz = 1 + r.Intn(7)
		} else {
			sz = 1 + r.Intn(n/6+1)
		}
	case 2: // MSS-like
		sz = 1460
		if r.Chance(0.3) {
			sz = 1 + r.Intn(1460)
		}
	default:
		sz = n
		if r.Chance(0.2) {
			sz = 1 + r.Intn(n)
		}
	}
	if sz > n {
		sz = n
	}
	return sz
}

// ---- deadlines (adapted from net.Pipe) -------------------------------------------

type deadline struct{ d *pipeDeadline }

func makeDeadline() deadline { return deadline{&pipeDeadline{cancel: make(chan struct{})}} }

type pipeDeadline struct {
	mu     sync.Mutex
	timer  *time.Timer
	cancel chan struct{}
}

func (dd deadline) set(t time.Time) {
	d := dd.d
	d.mu.Lock()
	defer d.mu.Unlock()
	if d.timer != nil && !d.timer.Stop() {
		<-d.cancel // wait for the timer callback to finish and close cancel
	}
	d.timer = nil
	closed := isClosedChan(d.cancel)
	if t.IsZero() {
		if closed {
			d.cancel = make(chan struct{})
		}
		return
	}
	if dur := time.Until(t); dur > 0 {
		if closed {
			d.cancel = make(chan struct{})
		}
		ch := d.cancel
		d.timer = time.AfterFunc(dur, func() { close(ch) })
		return
	}
	if !closed {
		close(d.cancel)
	}
}

func (dd deadline) wait() chan struct{} {
	dd.d.mu.Lock()
	defer dd.d.mu.Unlock()
	return dd.d.cancel
}

func (dd deadline) expired() bool { return isClosedChan(dd.wait()) }

func isClosedChan(c <-chan struct{}) bool {
	select {
	case <-c:
		return true
	default:
		return false
	}
}

// ---- UDP -----------------------------------------------------------------------

type dgram struct {
	b    []byte
	from *net.UDPAddr
}

type UDPConn struct {
	n      *Net
	addr   *net.UDPAddr
	key    string
	q      chan dgram
	closed chan struct{}
	once   sync.Once
	rd     deadline
	host   *simrt.Host
}

func ListenUDP(network string, laddr *net.UDPAddr) (*UDPConn, error) {
	h := curHost("ListenUDP")
	n := W
	ip := h.IP
	if laddr != nil && laddr.IP != nil && !laddr.IP.IsUnspecified() && !laddr.IP.IsLoopback() {
		ip = laddr.IP.String()
	}
	n.mu.Lock()
	defer n.mu.Unlock()
	port := 0
	if laddr != nil {
		port = laddr.Port
	}
	if port == 0 {
		port = n.ephemeral(ip)
	}
	key := ip + ":" + strconv.Itoa(port)
	if _, ok := n.udp[key]; ok {
		return nil, &net.OpError{Op: "listen", Net: "udp", Err: os.NewSyscallError("bind", syscall.EADDRINUSE)}
	}
	c := &UDPConn{n: n, addr: &net.UDPAddr{IP: net.ParseIP(ip).To4(), Port: port}, key: key, q: make(chan dgram, 4096), closed: make(chan struct{}), rd: makeDeadline(), host: h}
	n.udp[key] = c
	simrt.Logf("net udp-listen %s %s", h.Name, key)
	return c, nil
}

func (c *UDPConn) Close() error {
	c.once.Do(func() {
		c.n.mu.Lock()
		delete(c.n.udp, c.key)
		c.n.mu.Unlock()
		close(c.closed)
	})
	return nil
}

func (c *UDPConn) LocalAddr() net.Addr                { return c.addr }
func (c *UDPConn) RemoteAddr() net.Addr               { return nil }
func (c *UDPConn) SetDeadline(t time.Time) error      { c.rd.set(t); return nil }
func (c *UDPConn) SetReadDeadline(t time.Time) error  { c.rd.set(t); return nil }
func (c *UDPConn) SetWriteDeadline(t time.Time) error { return nil }
func (c *UDPConn) Write(b []byte) (int, error) {
	return 0, &net.OpError{Op: "write", Net: "udp", Err: errors.New("simnet: unconnected UDP socket")}
}

func (c *UDPConn) ReadFromUDP(b []byte) (int, *net.UDPAddr, error) {
	select {
	case <-c.closed:
		return 0, nil, &net.OpError{Op: "read", Net: "udp", Err: net.ErrClosed}
	default:
	}
	if c.rd.expired() {
		return 0, nil, &net.OpError{Op: "read", Net: "udp", Err: errTimeout}
	}
	select {
	case d := <-c.q:
		n := copy(b, d.b)
		return n, d.from, nil
	case <-c.closed:
		return 0, nil, &net.OpError{Op: "read", Net: "udp", Err: net.ErrClosed}
	case <-c.rd.wait():
		return 0, nil, &net.OpError{Op: "read", Net: "udp", Err: errTimeout}
	}
}

func (c *UDPConn) ReadFrom(b []byte) (int, net.Addr, error) {
	n, a, err := c.ReadFromUDP(b)
	if a == nil {
		return n, nil, err
	}
	return n, a, err
}

func (c *UDPConn) Read(b []byte) (int, error) {
	n, _, err := c.ReadFromUDP(b)
	return n, err
}

func (c *UDPConn) WriteToUDP(b []byte, addr *net.UDPAddr) (int, error) { return c.WriteTo(b, addr) }

func (c *UDPConn) WriteTo(b []byte, addr net.Addr) (int, error) {
	select {
	case <-c.closed:
		return 0, &net.OpError{Op: "write", Net: "udp", Err: net.ErrClosed}
	default:
	}
	ua, ok := addr.(*net.UDPAddr)
	if !ok || ua == nil {
		return 0, &net.OpError{Op: "write", Net: "udp", Err: errors.New("simnet: bad address")}
	}
	n := c.n
	to := &net.UDPAddr{IP: ua.IP.To4(), Port: ua.Port}
	if to.IP == nil {
		return 0, &net.OpError{Op: "write", Net: "udp", Err: errors.New("simnet: not IPv4")}
	}
	if to.IP.IsLoopback() {
		to.IP = net.ParseIP(c.host.IP).To4()
	}
	data := append([]byte(nil), b...)
	n.mu.Lock()
	n.UDPSent = append(n.UDPSent, UDPRecord{At: simrt.Now(), From: c.key, To: to.String(), Len: len(b)})
	loss := n.rng.Chance(n.Cfg.UDPLoss)
	dup := n.rng.Chance(n.Cfg.UDPDup)
	d1 := n.rng.Dur(n.Cfg.LatMin, n.Cfg.LatMax+n.Cfg.UDPDelayMax)
	d2 := n.rng.Dur(n.Cfg.LatMin, n.Cfg.LatMax+n.Cfg.UDPDelayMax)
	if n.Cfg.UDPBurstP > 0 {
		if n.udpLast == nil {
			n.udpLast = map[string]time.Duration{}
		}
		k := c.key + ">" + to.String()
		if last := n.udpLast[k]; n.rng.Chance(n.Cfg.UDPBurstP) && last > simrt.Now() {
			d1 = last - simrt.Now()
			simrt.Count("fault.udp.burst", 1)
		}
		n.udpLast[k] = simrt.Now() + d1
	}
	n.mu.Unlock()
	simrt.Logf("net udp %s -> %s len=%d", c.key, to, len(b))
	if n.OnUDP != nil && !n.OnUDP(c.addr, to, data) {
		return len(b), nil
	}
	if n.partitioned(c.addr.IP.String(), to.IP.String()) {
		loss = true
	}
	if loss {
		simrt.Count("fault.udp.loss", 1)
		return len(b), nil
	}
	deliver := func() {
		n.mu.Lock()
		dst := n.udp[to.String()]
		n.mu.Unlock()
		if dst == nil {
			return
		}
		select {
		case dst.q <- dgram{b: data, from: c.addr}:
		default:
		}
	}
	time.AfterFunc(d1, deliver)
	if dup {
		simrt.Count("fault.udp.dup", 1)
		time.AfterFunc(d2, deliver)
	}
	return len(b), nil
}

// ---- DNS -----------------------------------------------------------------------

type Resolver struct{}

var DefaultResolver = &Resolver{}

func (r *Resolver) LookupIPAddr(ctx context.Context, host string) ([]net.IPAddr, error) {
	n := W
	if ip := net.ParseIP(host); ip != nil {
		return []net.IPAddr{{IP: ip}}, nil
	}
	n.mu.Lock()
	e, ok := n.dns[host]
	n.mu.Unlock()
	simrt.Logf("net dns %s known=%v", host, ok)
	if host == "localhost" && !ok {
		h := simrt.Cur()
		if h != nil {
			return []net.IPAddr{{IP: net.ParseIP(h.IP)}}, nil
		}
	}
	if !ok {
		e = DNSEntry{Err: "nxdomain", Delay: 5 * time.Millisecond}
	}
	if e.Err == "timeout" {
		<-ctx.Done()
		return nil, &net.DNSError{Err: ctx.Err().Error(), Name: host, IsTimeout: true}
	}
	if e.Delay > 0 {
		t := time.NewTimer(e.Delay)
		select {
		case <-t.C:
		case <-ctx.Done():
			t.Stop()
			return nil, &net.DNSError{Err: ctx.Err().Error(), Name: host, IsTimeout: errors.Is(ctx.Err(), context.DeadlineExceeded)}
		}
	}
	if e.Err == "nxdomain" {
		return nil, &net.DNSError{Err: "no such host", Name: host, IsNotFound: true}
	}
	out := make([]net.IPAddr, len(e.IPs))
	for i, ip := range e.IPs {
		out[i] = net.IPAddr{IP: ip}
	}
	return out, nil
}

func (r *Resolver) LookupHost(ctx context.Context, host string) ([]string, error) {
	a, err := r.LookupIPAddr(ctx, host)
	if err != nil {
		return nil, err
	}
	s := make([]string, len(a))
	for i := range a {
		s[i] = a[i].IP.String()
	}
	return s, nil
}

// DialContextFunc is a convenience for http.Transport.DialContext in the harness.
func DialContextFunc(ctx context.Context, network, addr string) (net.Conn, error) {
	var d Dialer
	return d.DialContext(ctx, network, addr)
}

func init() { _ = fmt.Sprint }
