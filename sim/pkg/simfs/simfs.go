// Package simfs is the in-memory disk of the simulation, with a durability model:
// each file has current content (what reads see) and durable content (what survives a
// crash). Writes through an O_SYNC handle are durable when they return; other writes are
// volatile until Sync. A crash image = durable bytes + a PRNG-chosen subset of the sectors of
// writes in flight at that instant (torn write) + (rarely) some volatile sectors.
//
// Every path operation is recorded in an audit log and open handles are tracked, which is
// what the confinement (C07), "Stopped => no open files" (C04) and O_SYNC (C05) oracles read.
package simfs

import (
	"errors"
	"io"
	"io/fs"
	"os"
	"path"
	"sort"
	"strings"
	"sync"
	"syscall"
	"time"

	"github.com/cenkalti/rain/v2/internal/zzsim/simrt"
)

const Sector = 512

// Op is one audit-log entry.
type Op struct {
	At   time.Duration
	Kind string // mkdir open create truncate write read remove close stat walk
	Path string
	Flag int
	Off  int64
	Len  int
	Err  string
}

type inflight struct {
	off  int64
	data []byte
}

type inode struct {
	cur []byte
	dur []byte
	// hole: implicit zero bytes after cur (a sparse tail: huge files are never materialised)
	hole     int64
	mode     fs.FileMode
	inflight map[*inflight]struct{}
	nlinkOK  bool
}

// WriteEvent is passed to the OnWrite hook at the three gates of a write.
type WriteEvent struct {
	FS     *FS
	Path   string
	Off    int64
	Data   []byte
	Sync   bool
	Phase  string // "begin", "mid", "end"
	Failed bool   // set at "end" when the write failed (injected fault)
	N      int    // ordinal of this write on this FS (1-based)
}

// Fault is what a hook can ask for at the "begin" gate.
type Fault struct {
	Err   error         // fail the write with this error (nothing written)
	Short int           // >0: write only this many bytes, then return Err (or io.ErrShortWrite)
	Delay time.Duration // extra latency before the write is applied
}

type FS struct {
	mu      sync.Mutex
	Name    string
	files   map[string]*inode
	dirs    map[string]bool
	handles map[*File]struct{}
	Audit   []Op
	rng     *simrt.Rand
	// Latencies (fake time) of data operations; give commands a window to land mid-I/O.
	WriteLat, ReadLat, OpenLat [2]time.Duration
	// Hooks (world supplied).
	OnWrite func(ev *WriteEvent) Fault
	// ReadChunkMax > 0: File.Read returns at most a random 1..ReadChunkMax bytes (short reads).
	ReadChunkMax int
	// Sparse: files larger than Quota are kept as a size only (reads give zeros, writes into
	// the hole fail with ENOSPC).
	Sparse bool
	// Quota: the largest file the disk takes (0 = no limit); larger truncates fail with EFBIG.
	Quota   int64
	OnRead  func(path string, off int64, n int) error
	OnOpen  func(path string, flag int) error
	nWrites int
	// Frozen: after a crash snapshot was promoted, the old FS can be frozen so that the dead
	// session's late writes are ignored.
	Frozen bool
	// AuditOff disables audit logging (for harness-internal bulk operations).
	AuditOff bool
}

func New(name string, seed uint64) *FS {
	f := &FS{Name: name, files: map[string]*inode{}, dirs: map[string]bool{"/": true}, handles: map[*File]struct{}{}, rng: simrt.NewRand(seed ^ 0x6673)}
	f.WriteLat = [2]time.Duration{200 * time.Microsecond, 3 * time.Millisecond}
	f.ReadLat = [2]time.Duration{50 * time.Microsecond, time.Millisecond}
	f.OpenLat = [2]time.Duration{50 * time.Microsecond, time.Millisecond}
	return f
}

// Cur returns the file system of the calling goroutine's host.
func Cur() *FS {
	h := simrt.Cur()
	if h == nil || h.FS == nil {
		panic("simfs: file operation from a goroutine with no simulated host/disk")
	}
	return h.FS.(*FS)
}

func clean(p string) string {
	if !strings.HasPrefix(p, "/") {
		p = "/cwd/" + p
	}
	return path.Clean(p)
}

func (f *FS) audit(kind, p string, flag int, off int64, n int, err error) {
	if f.AuditOff {
		return
	}
	e := ""
	if err != nil {
		e = err.Error()
	}
	f.Audit = append(f.Audit, Op{At: simrt.Now(), Kind: kind, Path: p, Flag: flag, Off: off, Len: n, Err: e})
}

func (f *FS) sleep(r [2]time.Duration) {
	f.mu.Lock()
	d := f.rng.Dur(r[0], r[1])
	f.mu.Unlock()
	if d > 0 {
		time.Sleep(d)
	}
}

func pathErr(op, p string, err error) error { return &fs.PathError{Op: op, Path: p, Err: err} }

// ---- directory ops -------------------------------------------------------------

func (f *FS) MkdirAll(p string, perm fs.FileMode) error {
	if err := nameErr(p); err != nil {
		return pathErr("mkdir", p, err)
	}
	p = clean(p)
	f.mu.Lock()
	defer f.mu.Unlock()
	f.audit("mkdir", p, 0, 0, 0, nil)
	return f.mkdirAllLocked(p)
}

func (f *FS) mkdirAllLocked(p string) error {
	for q := p; q != "/" && q != "."; q = path.Dir(q) {
		if _, ok := f.files[q]; ok {
			return pathErr("mkdir", q, syscall.ENOTDIR)
		}
	}
	for q := p; q != "/" && q != "."; q = path.Dir(q) {
		f.dirs[q] = true
	}
	return nil
}

func (f *FS) RemoveAll(p string) error {
	p = clean(p)
	f.mu.Lock()
	defer f.mu.Unlock()
	f.audit("remove", p, 0, 0, 0, nil)
	if p == "/" {
		f.files = map[string]*inode{}
		f.dirs = map[string]bool{"/": true}
		return nil
	}
	pre := p + "/"
	for k := range f.files {
		if k == p || strings.HasPrefix(k, pre) {
			delete(f.files, k)
		}
	}
	for k := range f.dirs {
		if k == p || strings.HasPrefix(k, pre) {
			delete(f.dirs, k)
		}
	}
	return nil
}

func (f *FS) Remove(p string) error {
	p = clean(p)
	f.mu.Lock()
	defer f.mu.Unlock()
	f.audit("remove", p, 0, 0, 0, nil)
	if _, ok := f.files[p]; ok {
		delete(f.files, p)
		return nil
	}
	if f.dirs[p] {
		delete(f.dirs, p)
		return nil
	}
	return pathErr("remove", p, fs.ErrNotExist)
}

// ---- files ----------------------------------------------------------------------

type File struct {
	fs     *FS
	path   string
	ino    *inode
	flag   int
	sync   bool
	closed bool
	pos    int64
}

// nameErr mimics the kernel: no NUL inside a path, no component longer than 255 bytes.
func nameErr(p string) error {
	if strings.ContainsRune(p, 0) {
		return syscall.EINVAL
	}
	for _, c := range strings.Split(p, "/") {
		if len(c) > 255 {
			return syscall.ENAMETOOLONG
		}
	}
	return nil
}

func (f *FS) OpenFile(name string, flag int, perm fs.FileMode) (*File, error) {
	p := clean(name)
	if err := nameErr(name); err != nil {
		f.mu.Lock()
		f.audit("open", p, flag, 0, 0, err)
		f.mu.Unlock()
		return nil, pathErr("open", name, err)
	}
	f.sleep(f.OpenLat)
	if f.OnOpen != nil {
		if err := f.OnOpen(p, flag); err != nil {
			f.mu.Lock()
			f.audit("open", p, flag, 0, 0, err)
			f.mu.Unlock()
			simrt.Count("fault.disk.open", 1)
			return nil, pathErr("open", name, err)
		}
	}
	f.mu.Lock()
	defer f.mu.Unlock()
	if f.dirs[p] {
		if flag&(os.O_WRONLY|os.O_RDWR) != 0 {
			err := pathErr("open", name, syscall.EISDIR)
			f.audit("open", p, flag, 0, 0, err)
			return nil, err
		}
		fl := &File{fs: f, path: p, flag: flag}
		f.handles[fl] = struct{}{}
		f.audit("open", p, flag, 0, 0, nil)
		return fl, nil
	}
	ino, ok := f.files[p]
	if !ok {
		if flag&os.O_CREATE == 0 {
			err := pathErr("open", name, fs.ErrNotExist)
			f.audit("open", p, flag, 0, 0, err)
			return nil, err
		}
		dir := path.Dir(p)
		if !f.dirs[dir] {
			err := pathErr("open", name, fs.ErrNotExist)
			f.audit("open", p, flag, 0, 0, err)
			return nil, err
		}
		ino = &inode{mode: perm, inflight: map[*inflight]struct{}{}}
		f.files[p] = ino
		f.audit("create", p, flag, 0, 0, nil)
	} else {
		if flag&os.O_EXCL != 0 && flag&os.O_CREATE != 0 {
			return nil, pathErr("open", name, fs.ErrExist)
		}
		f.audit("open", p, flag, 0, 0, nil)
	}
	if flag&os.O_TRUNC != 0 {
		ino.cur = nil
		ino.dur = nil
		f.audit("truncate", p, flag, 0, 0, nil)
	}
	fl := &File{fs: f, path: p, ino: ino, flag: flag, sync: flag&os.O_SYNC != 0}
	f.handles[fl] = struct{}{}
	return fl, nil
}

func (f *FS) Stat(name string) (fs.FileInfo, error) {
	p := clean(name)
	f.mu.Lock()
	defer f.mu.Unlock()
	f.audit("stat", p, 0, 0, 0, nil)
	if ino, ok := f.files[p]; ok {
		return &fileInfo{name: path.Base(p), size: int64(len(ino.cur)) + ino.hole, mode: ino.mode}, nil
	}
	if f.dirs[p] {
		return &fileInfo{name: path.Base(p), dir: true, mode: fs.ModeDir | 0o755}, nil
	}
	return nil, pathErr("stat", name, fs.ErrNotExist)
}

type fileInfo struct {
	name string
	size int64
	mode fs.FileMode
	dir  bool
}

func (i *fileInfo) Name() string       { return i.name }
func (i *fileInfo) Size() int64        { return i.size }
func (i *fileInfo) Mode() fs.FileMode  { return i.mode }
func (i *fileInfo) ModTime() time.Time { return time.Time{} }
func (i *fileInfo) IsDir() bool        { return i.dir }
func (i *fileInfo) Sys() any           { return nil }

func (fl *File) Name() string { return fl.path }
func (fl *File) Fd() uintptr  { return ^uintptr(0) }

func (fl *File) Stat() (fs.FileInfo, error) {
	fl.fs.mu.Lock()
	defer fl.fs.mu.Unlock()
	if fl.closed {
		return nil, pathErr("stat", fl.path, fs.ErrClosed)
	}
	if fl.ino == nil {
		return &fileInfo{name: path.Base(fl.path), dir: true, mode: fs.ModeDir | 0o755}, nil
	}
	return &fileInfo{name: path.Base(fl.path), size: int64(len(fl.ino.cur)) + fl.ino.hole, mode: fl.ino.mode}, nil
}

func (fl *File) Close() error {
	fl.fs.mu.Lock()
	defer fl.fs.mu.Unlock()
	if fl.closed {
		return pathErr("close", fl.path, fs.ErrClosed)
	}
	fl.closed = true
	delete(fl.fs.handles, fl)
	fl.fs.audit("close", fl.path, 0, 0, 0, nil)
	return nil
}

func (fl *File) Truncate(size int64) error {
	fl.fs.mu.Lock()
	defer fl.fs.mu.Unlock()
	if fl.closed {
		return pathErr("truncate", fl.path, fs.ErrClosed)
	}
	fl.fs.audit("truncate", fl.path, 0, size, 0, nil)
	if size < 0 {
		return pathErr("truncate", fl.path, syscall.EINVAL)
	}
	if fl.fs.Quota > 0 && size > fl.fs.Quota {
		if !fl.fs.Sparse {
			return pathErr("truncate", fl.path, syscall.EFBIG)
		}
		// sparse file system: the size is recorded, nothing is allocated
		if int64(len(fl.ino.cur)) > fl.fs.Quota {
			fl.ino.cur = fl.ino.cur[:fl.fs.Quota]
			fl.ino.dur = resize(fl.ino.dur, fl.fs.Quota)
		}
		fl.ino.hole = size - int64(len(fl.ino.cur))
		return nil
	}
	fl.ino.hole = 0
	fl.ino.cur = resize(fl.ino.cur, size)
	fl.ino.dur = resize(fl.ino.dur, size) // metadata treated as durable (stated assumption)
	return nil
}

func resize(b []byte, size int64) []byte {
	if int64(len(b)) >= size {
		return b[:size]
	}
	return append(b, make([]byte, size-int64(len(b)))...)
}

func (fl *File) Sync() error {
	fl.fs.mu.Lock()
	defer fl.fs.mu.Unlock()
	if fl.closed {
		return pathErr("sync", fl.path, fs.ErrClosed)
	}
	fl.ino.dur = append(fl.ino.dur[:0], fl.ino.cur...)
	return nil
}

func (fl *File) ReadAt(p []byte, off int64) (int, error) {
	f := fl.fs
	f.sleep(f.ReadLat)
	if f.OnRead != nil {
		if err := f.OnRead(fl.path, off, len(p)); err != nil {
			simrt.Count("fault.disk.read", 1)
			f.mu.Lock()
			f.audit("read", fl.path, 0, off, len(p), err)
			f.mu.Unlock()
			return 0, pathErr("read", fl.path, err)
		}
	}
	f.mu.Lock()
	defer f.mu.Unlock()
	if fl.closed {
		return 0, pathErr("read", fl.path, fs.ErrClosed)
	}
	f.audit("read", fl.path, 0, off, len(p), nil)
	if off < 0 {
		return 0, pathErr("read", fl.path, errors.New("negative offset"))
	}
	if off >= int64(len(fl.ino.cur)) {
		if off < int64(len(fl.ino.cur))+fl.ino.hole {
			// inside the sparse tail: zeros
			n := int(min(int64(len(p)), int64(len(fl.ino.cur))+fl.ino.hole-off))
			clear(p[:n])
			if n < len(p) {
				return n, io.EOF
			}
			return n, nil
		}
		return 0, io.EOF
	}
	n := copy(p, fl.ino.cur[off:])
	if n < len(p) {
		return n, io.EOF
	}
	return n, nil
}

func (fl *File) Read(p []byte) (int, error) {
	if m := fl.fs.ReadChunkMax; m > 0 && len(p) > 1 {
		// a sequential read may return fewer bytes than asked for
		fl.fs.mu.Lock()
		n := 1 + fl.fs.rng.Intn(min(m, len(p)))
		fl.fs.mu.Unlock()
		p = p[:n]
	}
	n, err := fl.ReadAt(p, fl.pos)
	fl.pos += int64(n)
	if n > 0 && err == io.EOF {
		err = nil
	}
	return n, err
}

func (fl *File) Write(p []byte) (int, error) {
	n, err := fl.WriteAt(p, fl.pos)
	fl.pos += int64(n)
	return n, err
}

func (fl *File) Seek(offset int64, whence int) (int64, error) {
	switch whence {
	case io.SeekStart:
		fl.pos = offset
	case io.SeekCurrent:
		fl.pos += offset
	case io.SeekEnd:
		fl.fs.mu.Lock()
		fl.pos = int64(len(fl.ino.cur)) + offset
		fl.fs.mu.Unlock()
	}
	return fl.pos, nil
}

func (fl *File) WriteAt(p []byte, off int64) (int, error) {
	f := fl.fs
	f.mu.Lock()
	if fl.closed {
		f.mu.Unlock()
		return 0, pathErr("write", fl.path, fs.ErrClosed)
	}
	if fl.flag&(os.O_WRONLY|os.O_RDWR) == 0 {
		f.mu.Unlock()
		return 0, pathErr("write", fl.path, syscall.EBADF)
	}
	if fl.ino.hole > 0 && f.Quota > 0 && off+int64(len(p)) > f.Quota {
		f.mu.Unlock()
		return 0, pathErr("write", fl.path, syscall.ENOSPC) // the sparse tail has no blocks to give
	}
	f.nWrites++
	ev := &WriteEvent{FS: f, Path: fl.path, Off: off, Data: p, Sync: fl.sync, Phase: "begin", N: f.nWrites}
	f.audit("write", fl.path, fl.flag, off, len(p), nil)
	fw := &inflight{off: off, data: append([]byte(nil), p...)}
	fl.ino.inflight[fw] = struct{}{}
	f.mu.Unlock()
	done := func() {
		f.mu.Lock()
		delete(fl.ino.inflight, fw)
		f.mu.Unlock()
	}
	var fault Fault
	if f.OnWrite != nil {
		fault = f.OnWrite(ev)
	}
	if fault.Delay > 0 {
		simrt.Count("fault.disk.slowwrite", 1)
		time.Sleep(fault.Delay)
	}
	if fault.Err != nil && fault.Short <= 0 {
		done()
		simrt.Count("fault.disk.writeerr", 1)
		if f.OnWrite != nil {
			ev.Phase = "end"
			ev.Failed = true
			f.OnWrite(ev)
		}
		return 0, pathErr("write", fl.path, fault.Err)
	}
	data := p
	if fault.Short > 0 && fault.Short < len(p) {
		data = p[:fault.Short]
		simrt.Count("fault.disk.shortwrite", 1)
	}
	f.sleep(f.WriteLat)
	// first half
	half := len(data) / 2
	f.apply(fl, data[:half], off, false)
	if f.OnWrite != nil {
		ev.Phase = "mid"
		f.OnWrite(ev)
	}
	f.sleep(f.WriteLat)
	f.apply(fl, data[half:], off+int64(half), false)
	if fl.sync {
		f.mu.Lock()
		if !f.Frozen {
			commit(fl.ino, off, data)
		}
		f.mu.Unlock()
	}
	done()
	if f.OnWrite != nil {
		ev.Phase = "end"
		f.OnWrite(ev)
	}
	if len(data) < len(p) {
		err := fault.Err
		if err == nil {
			err = io.ErrShortWrite
		}
		return len(data), pathErr("write", fl.path, err)
	}
	return len(p), nil
}

func (f *FS) apply(fl *File, b []byte, off int64, durable bool) {
	f.mu.Lock()
	defer f.mu.Unlock()
	if f.Frozen || len(b) == 0 {
		return
	}
	end := off + int64(len(b))
	if int64(len(fl.ino.cur)) < end {
		fl.ino.cur = resize(fl.ino.cur, end)
	}
	copy(fl.ino.cur[off:], b)
}

func commit(ino *inode, off int64, b []byte) {
	end := off + int64(len(b))
	if int64(len(ino.dur)) < end {
		ino.dur = resize(ino.dur, end)
	}
	copy(ino.dur[off:], b)
}

// ---- harness-side access (no latency, no hooks, not audited) --------------------

// Put creates/overwrites a file with durable content.
func (f *FS) Put(p string, data []byte) {
	p = clean(p)
	f.mu.Lock()
	defer f.mu.Unlock()
	f.mkdirAllLocked(path.Dir(p))
	f.files[p] = &inode{cur: append([]byte(nil), data...), dur: append([]byte(nil), data...), mode: 0o640, inflight: map[*inflight]struct{}{}}
}

// Get returns the current content of a file.
func (f *FS) Get(p string) ([]byte, bool) {
	p = clean(p)
	f.mu.Lock()
	defer f.mu.Unlock()
	ino, ok := f.files[p]
	if !ok {
		return nil, false
	}
	return ino.cur, true // not copied: the caller must not keep it across a scheduling point
}

// Durable returns the durable content of a file.
func (f *FS) Durable(p string) ([]byte, bool) {
	p = clean(p)
	f.mu.Lock()
	defer f.mu.Unlock()
	ino, ok := f.files[p]
	if !ok {
		return nil, false
	}
	return ino.dur, true
}

// Delete removes a file (external mutation).
func (f *FS) Delete(p string) {
	p = clean(p)
	f.mu.Lock()
	delete(f.files, p)
	f.mu.Unlock()
}

// Mutate applies fn to the content of a file, making the result durable (external mutation).
func (f *FS) Mutate(p string, fn func([]byte) []byte) bool {
	p = clean(p)
	f.mu.Lock()
	defer f.mu.Unlock()
	ino, ok := f.files[p]
	if !ok {
		return false
	}
	nb := fn(append([]byte(nil), ino.cur...))
	ino.cur = nb
	ino.dur = append([]byte(nil), nb...)
	return true
}

// Files returns the sorted list of file paths under prefix.
func (f *FS) Files(prefix string) []string {
	prefix = clean(prefix)
	f.mu.Lock()
	defer f.mu.Unlock()
	var out []string
	for k := range f.files {
		if prefix == "/" || k == prefix || strings.HasPrefix(k, prefix+"/") {
			out = append(out, k)
		}
	}
	sort.Strings(out)
	return out
}

// Dirs returns the sorted list of directories.
func (f *FS) Dirs() []string {
	f.mu.Lock()
	defer f.mu.Unlock()
	var out []string
	for k := range f.dirs {
		out = append(out, k)
	}
	sort.Strings(out)
	return out
}

// OpenHandles returns the sorted paths of handles currently open (under prefix).
func (f *FS) OpenHandles(prefix string) []string {
	prefix = clean(prefix)
	f.mu.Lock()
	defer f.mu.Unlock()
	var out []string
	for h := range f.handles {
		if prefix == "/" || h.path == prefix || strings.HasPrefix(h.path, prefix+"/") {
			out = append(out, h.path)
		}
	}
	sort.Strings(out)
	return out
}

// AuditLen / AuditFrom give incremental access to the audit log.
func (f *FS) AuditLen() int { f.mu.Lock(); defer f.mu.Unlock(); return len(f.Audit) }
func (f *FS) AuditFrom(i int) []Op {
	f.mu.Lock()
	defer f.mu.Unlock()
	return append([]Op(nil), f.Audit[i:]...)
}

// InflightWrites returns how many writes are between begin and end right now.
func (f *FS) InflightWrites() int {
	f.mu.Lock()
	defer f.mu.Unlock()
	n := 0
	for _, ino := range f.files {
		n += len(ino.inflight)
	}
	return n
}

// CrashImage builds the disk as it would be found after a power cut now: durable bytes,
// plus a random subset of the sectors of in-flight writes (torn), plus — with probability
// volatileP per file — a random subset of volatile (unsynced) sectors.
func (f *FS) CrashImage(name string, r *simrt.Rand, volatileP float64) *FS {
	f.mu.Lock()
	defer f.mu.Unlock()
	img := New(name, r.Uint64())
	img.WriteLat, img.ReadLat, img.OpenLat = f.WriteLat, f.ReadLat, f.OpenLat
	for d := range f.dirs {
		img.dirs[d] = true
	}
	paths := make([]string, 0, len(f.files))
	for p := range f.files {
		paths = append(paths, p)
	}
	sort.Strings(paths)
	for _, p := range paths {
		ino := f.files[p]
		content := append([]byte(nil), ino.dur...)
		// metadata (size) is durable: keep the current size
		content = resize(content, int64(len(ino.cur)))
		// torn in-flight writes: each sector independently may have reached the platter
		var fws []*inflight
		for fw := range ino.inflight {
			fws = append(fws, fw)
		}
		sort.Slice(fws, func(i, j int) bool { return fws[i].off < fws[j].off })
		for _, fw := range fws {
			mode := r.Intn(4) // 0 none, 1 all, 2 prefix, 3 random sectors
			for s := 0; s < len(fw.data); s += Sector {
				e := s + Sector
				if e > len(fw.data) {
					e = len(fw.data)
				}
				take := false
				switch mode {
				case 1:
					take = true
				case 2:
					take = s < len(fw.data)/2
				case 3:
					take = r.Bool()
				}
				if take && fw.off+int64(e) <= int64(len(content)) {
					copy(content[fw.off+int64(s):], fw.data[s:e])
				}
			}
			if len(fw.data) > 0 {
				simrt.Count("fault.disk.torn", 1)
			}
		}
		// volatile sectors
		if len(ino.cur) == len(content) && r.Chance(volatileP) {
			for s := 0; s < len(content); s += Sector {
				e := s + Sector
				if e > len(content) {
					e = len(content)
				}
				if r.Bool() {
					copy(content[s:e], ino.cur[s:e])
				}
			}
		}
		img.files[p] = &inode{cur: content, dur: append([]byte(nil), content...), mode: ino.mode, inflight: map[*inflight]struct{}{}}
	}
	return img
}

// Clone copies the current (not durable) state — a graceful hand-over, e.g. for restart
// after a clean Close.
func (f *FS) Clone(name string, seed uint64) *FS {
	f.mu.Lock()
	defer f.mu.Unlock()
	img := New(name, seed)
	img.WriteLat, img.ReadLat, img.OpenLat = f.WriteLat, f.ReadLat, f.OpenLat
	for d := range f.dirs {
		img.dirs[d] = true
	}
	for p, ino := range f.files {
		img.files[p] = &inode{cur: append([]byte(nil), ino.cur...), dur: append([]byte(nil), ino.cur...), mode: ino.mode, inflight: map[*inflight]struct{}{}}
	}
	return img
}

// Walk visits files and directories under root in lexical order (filepath.Walk semantics,
// without symlinks).
func (f *FS) Walk(root string, fn func(path string, info fs.FileInfo, err error) error) error {
	root = clean(root)
	f.mu.Lock()
	f.audit("walk", root, 0, 0, 0, nil)
	_, isFile := f.files[root]
	isDir := f.dirs[root]
	var entries []string
	if isDir {
		pre := root + "/"
		if root == "/" {
			pre = "/"
		}
		for k := range f.files {
			if strings.HasPrefix(k, pre) {
				entries = append(entries, k)
			}
		}
		for k := range f.dirs {
			if strings.HasPrefix(k, pre) && k != root {
				entries = append(entries, k)
			}
		}
	}
	f.mu.Unlock()
	if !isFile && !isDir {
		return fn(root, nil, pathErr("lstat", root, fs.ErrNotExist))
	}
	info, _ := f.Stat(root)
	if err := fn(root, info, nil); err != nil {
		if err == fs.SkipDir || err == fs.SkipAll {
			return nil
		}
		return err
	}
	// filepath.Walk visits the names of each directory in lexical order: compare component by
	// component (plain string order would put "d.x" before "d/e")
	sort.Slice(entries, func(i, j int) bool {
		a, b := strings.Split(entries[i], "/"), strings.Split(entries[j], "/")
		for k := 0; k < len(a) && k < len(b); k++ {
			if a[k] != b[k] {
				return a[k] < b[k]
			}
		}
		return len(a) < len(b)
	})
	skip := ""
	for _, e := range entries {
		if skip != "" && strings.HasPrefix(e, skip) {
			continue
		}
		info, err := f.Stat(e)
		if err != nil {
			continue
		}
		if err := fn(e, info, nil); err != nil {
			if err == fs.SkipDir {
				if info.IsDir() {
					skip = e + "/"
				} else {
					skip = path.Dir(e) + "/"
				}
				continue
			}
			if err == fs.SkipAll {
				return nil
			}
			return err
		}
	}
	return nil
}
