// Package gen builds torrents with known ground-truth content for the simulation: layouts
// (single/multi file, zero-length files, BEP 47 padding files, odd piece lengths, short last
// piece), the metainfo bytes (own bencoder, independent of rain's), and helpers to compare
// disk/wire bytes against the truth.
package gen

import (
	"bytes"
	"crypto/sha1"
	"fmt"
	"sort"
	"strconv"
	"sync"

	"github.com/cenkalti/rain/v2/internal/zzsim/simrt"
)

// ---- bencode (encoder + strict decoder) -------------------------------------------

type Raw []byte // pre-encoded value

func Bencode(v any) []byte {
	var b bytes.Buffer
	benc(&b, v)
	return b.Bytes()
}

func benc(b *bytes.Buffer, v any) {
	switch x := v.(type) {
	case Raw:
		b.Write(x)
	case int:
		fmt.Fprintf(b, "i%de", x)
	case int64:
		fmt.Fprintf(b, "i%de", x)
	case uint32:
		fmt.Fprintf(b, "i%de", x)
	case string:
		fmt.Fprintf(b, "%d:%s", len(x), x)
	case []byte:
		fmt.Fprintf(b, "%d:", len(x))
		b.Write(x)
	case []string:
		b.WriteByte('l')
		for _, e := range x {
			benc(b, e)
		}
		b.WriteByte('e')
	case [][]string:
		b.WriteByte('l')
		for _, e := range x {
			benc(b, e)
		}
		b.WriteByte('e')
	case []any:
		b.WriteByte('l')
		for _, e := range x {
			benc(b, e)
		}
		b.WriteByte('e')
	case map[string]any:
		keys := make([]string, 0, len(x))
		for k := range x {
			keys = append(keys, k)
		}
		sort.Strings(keys)
		b.WriteByte('d')
		for _, k := range keys {
			benc(b, k)
			benc(b, x[k])
		}
		b.WriteByte('e')
	default:
		panic(fmt.Sprintf("gen.Bencode: unsupported %T", v))
	}
}

// Bdecode decodes one bencoded value strictly (canonical integers, string lengths in
// range) and returns it with the number of bytes consumed. Dictionaries decode to
// map[string]any (duplicate keys are an error), lists to []any, strings to string, ints to int64.
func Bdecode(b []byte) (v any, n int, err error) {
	return bdec(b, 0, 0)
}

func bdec(b []byte, i, depth int) (any, int, error) {
	if depth > 64 {
		return nil, i, fmt.Errorf("bencode: nesting too deep")
	}
	if i >= len(b) {
		return nil, i, fmt.Errorf("bencode: unexpected end")
	}
	switch c := b[i]; {
	case c == 'i':
		j := bytes.IndexByte(b[i:], 'e')
		if j < 0 {
			return nil, i, fmt.Errorf("bencode: unterminated int")
		}
		s := string(b[i+1 : i+j])
		if s == "" || s == "-" || (len(s) > 1 && s[0] == '0') || (len(s) > 1 && s[0] == '-' && s[1] == '0') {
			return nil, i, fmt.Errorf("bencode: non-canonical int %q", s)
		}
		x, err := strconv.ParseInt(s, 10, 64)
		if err != nil {
			return nil, i, fmt.Errorf("bencode: bad int %q", s)
		}
		return x, i + j + 1, nil
	case c >= '0' && c <= '9':
		j := bytes.IndexByte(b[i:], ':')
		if j < 0 {
			return nil, i, fmt.Errorf("bencode: bad string length")
		}
		ls := string(b[i : i+j])
		if len(ls) > 1 && ls[0] == '0' {
			return nil, i, fmt.Errorf("bencode: non-canonical length")
		}
		l, err := strconv.Atoi(ls)
		if err != nil || l < 0 || i+j+1+l > len(b) {
			return nil, i, fmt.Errorf("bencode: string length out of range")
		}
		return string(b[i+j+1 : i+j+1+l]), i + j + 1 + l, nil
	case c == 'l':
		i++
		out := []any{}
		for {
			if i >= len(b) {
				return nil, i, fmt.Errorf("bencode: unterminated list")
			}
			if b[i] == 'e' {
				return out, i + 1, nil
			}
			v, n, err := bdec(b, i, depth+1)
			if err != nil {
				return nil, n, err
			}
			out = append(out, v)
			i = n
		}
	case c == 'd':
		i++
		out := map[string]any{}
		last := ""
		first := true
		for {
			if i >= len(b) {
				return nil, i, fmt.Errorf("bencode: unterminated dict")
			}
			if b[i] == 'e' {
				return out, i + 1, nil
			}
			k, n, err := bdec(b, i, depth+1)
			if err != nil {
				return nil, n, err
			}
			ks, ok := k.(string)
			if !ok {
				return nil, i, fmt.Errorf("bencode: non-string key")
			}
			if !first && ks <= last {
				return nil, i, fmt.Errorf("bencode: keys not sorted/unique (%q after %q)", ks, last)
			}
			first, last = false, ks
			v, n2, err := bdec(b, n, depth+1)
			if err != nil {
				return nil, n2, err
			}
			out[ks] = v
			i = n2
		}
	}
	return nil, i, fmt.Errorf("bencode: unexpected byte %q", b[i])
}

// ---- layouts -----------------------------------------------------------------------

type FileSpec struct {
	Path   []string `json:"path"`
	Length int64    `json:"length"`
	Pad    bool     `json:"pad,omitempty"`
	// PadStyle: 0 = BEP 47 attr "p", 1 = BitComet "_____padding_file_N_..." name
	PadStyle int `json:"pad_style,omitempty"`
}

type Layout struct {
	Name     string     `json:"name"`
	PieceLen int        `json:"piece_len"`
	Single   bool       `json:"single"`
	Files    []FileSpec `json:"files"`
	// Private: "" absent, otherwise the raw bencoded value of the key (e.g. "i1e", "1:1").
	Private  string     `json:"private,omitempty"`
	Trackers [][]string `json:"trackers,omitempty"`
	URLList  []string   `json:"url_list,omitempty"`
	DataSeed uint64     `json:"data_seed"`
	// ZeroRuns: (offset, length) ranges of the concatenated content that are all zeros
	// (sparse images, zero-filled files: content that "reads the same as a hole").
	ZeroRuns [][2]int64 `json:"zero_runs,omitempty"`
}

type Torrent struct {
	Layout
	Data      []byte // all files concatenated in order (padding files as zeros)
	Total     int64
	NumPieces int
	Hashes    []byte
	InfoBytes []byte
	InfoHash  [20]byte
	MetaBytes []byte
	// FileOff[i] is the offset of file i in Data.
	FileOff  []int64
	padMu    sync.Mutex
	padCache map[int][]bool
}

// Build materialises a layout.
func Build(l Layout) *Torrent {
	t := &Torrent{Layout: l}
	r := simrt.NewRand(l.DataSeed ^ 0x64617461)
	for _, f := range l.Files {
		t.FileOff = append(t.FileOff, t.Total)
		if f.Pad {
			t.Data = append(t.Data, make([]byte, f.Length)...)
		} else {
			t.Data = append(t.Data, r.Bytes(int(f.Length))...)
		}
		t.Total += f.Length
	}
	for _, z := range l.ZeroRuns {
		for i := max(z[0], 0); i < z[0]+z[1] && i < int64(len(t.Data)); i++ {
			t.Data[i] = 0
		}
	}
	pl := int64(l.PieceLen)
	t.NumPieces = int((t.Total + pl - 1) / pl)
	for i := 0; i < t.NumPieces; i++ {
		h := sha1.Sum(t.Piece(i))
		t.Hashes = append(t.Hashes, h[:]...)
	}
	info := map[string]any{
		"name":         l.Name,
		"piece length": l.PieceLen,
		"pieces":       t.Hashes,
	}
	if l.Private != "" {
		info["private"] = Raw(l.Private)
	}
	if l.Single {
		info["length"] = l.Files[0].Length
	} else {
		var fl []any
		for _, f := range l.Files {
			d := map[string]any{"length": f.Length, "path": f.Path}
			if f.Pad && f.PadStyle == 0 {
				d["attr"] = "p"
			}
			fl = append(fl, d)
		}
		info["files"] = fl
	}
	t.InfoBytes = Bencode(info)
	t.InfoHash = sha1.Sum(t.InfoBytes)
	t.RebuildMeta()
	return t
}

// RebuildMeta re-encodes the .torrent file (after Trackers/URLList were changed).
func (t *Torrent) RebuildMeta() {
	meta := map[string]any{"info": Raw(t.InfoBytes)}
	if len(t.Trackers) == 1 && len(t.Trackers[0]) == 1 {
		meta["announce"] = t.Trackers[0][0]
	} else if len(t.Trackers) > 0 {
		meta["announce-list"] = t.Trackers
	}
	if len(t.URLList) == 1 {
		meta["url-list"] = t.URLList[0]
	} else if len(t.URLList) > 1 {
		meta["url-list"] = t.URLList
	}
	t.MetaBytes = Bencode(meta)
}

func (t *Torrent) PieceSize(i int) int {
	if i == t.NumPieces-1 {
		return int(t.Total - int64(i)*int64(t.PieceLen))
	}
	return t.PieceLen
}

func (t *Torrent) Piece(i int) []byte {
	off := int64(i) * int64(t.PieceLen)
	end := off + int64(t.PieceLen)
	if end > t.Total {
		end = t.Total
	}
	return t.Data[off:end]
}

// FileRel returns the on-disk relative path of file i as rain lays it out (name/path...,
// for single-file torrents just name). Only valid for benign names.
func (t *Torrent) FileRel(i int) string {
	if t.Single {
		return t.Name
	}
	p := t.Name
	for _, c := range t.Files[i].Path {
		p += "/" + c
	}
	return p
}

// FileData returns the true content of file i.
func (t *Torrent) FileData(i int) []byte {
	return t.Data[t.FileOff[i] : t.FileOff[i]+t.Files[i].Length]
}

// PadMask returns, for piece i, a bool per byte: true where the byte belongs to a padding file.
func (t *Torrent) PadMask(i int) []bool {
	t.padMu.Lock()
	defer t.padMu.Unlock()
	if m, ok := t.padCache[i]; ok {
		return m
	}
	if t.padCache == nil {
		t.padCache = map[int][]bool{}
	}
	m := t.padMask(i)
	t.padCache[i] = m
	return m
}

func (t *Torrent) padMask(i int) []bool {
	off := int64(i) * int64(t.PieceLen)
	n := t.PieceSize(i)
	m := make([]bool, n)
	for fi, f := range t.Files {
		if !f.Pad {
			continue
		}
		s, e := t.FileOff[fi], t.FileOff[fi]+f.Length
		for x := max(s, off); x < min(e, off+int64(n)); x++ {
			m[x-off] = true
		}
	}
	return m
}

// NonPadBytes returns how many bytes of piece i are not padding.
func (t *Torrent) NonPadBytes(i int) int {
	n := 0
	for _, p := range t.PadMask(i) {
		if !p {
			n++
		}
	}
	return n
}

// PieceOfFileRange lists pieces overlapping file fi.
func (t *Torrent) PiecesOfFile(fi int) (first, last int) {
	if t.Files[fi].Length == 0 {
		return 0, -1
	}
	s := t.FileOff[fi]
	e := s + t.Files[fi].Length - 1
	return int(s / int64(t.PieceLen)), int(e / int64(t.PieceLen))
}

// ---- layout generator ----------------------------------------------------------------

type GenOpts struct {
	MaxPieces   int
	MinPieces   int  // 0 = 1
	MaxPieceLen int  // multiple of 16 KiB upper bound
	AllowPad    bool // padding files
	AllowOddPL  bool // piece length not a multiple of 16 KiB (hand-built metainfo)
	ForceMulti  bool
	ForceSingle bool
}

// RandomLayout draws a layout biased towards coincidences (file end = piece end = block end,
// padding at block start, whole-piece padding, zero-length files, short last piece).
func RandomLayout(r *simrt.Rand, o GenOpts) Layout {
	if o.MaxPieces <= 0 {
		o.MaxPieces = 24
	}
	if o.MaxPieceLen <= 0 {
		o.MaxPieceLen = 64 << 10
	}
	const blk = 16 << 10
	pl := blk * r.Range(1, o.MaxPieceLen/blk)
	if o.AllowOddPL && r.Chance(0.25) {
		pl = r.Range(1, o.MaxPieceLen)
	}
	np := r.Range(max(1, o.MinPieces), o.MaxPieces)
	total := int64(pl)*int64(np-1) + int64(r.Range(1, pl))
	if r.Chance(0.3) {
		total = int64(pl) * int64(np) // exact multiple
	}
	l := Layout{Name: "t" + strconv.FormatUint(r.Uint64()%100000, 10), PieceLen: pl, DataSeed: r.Uint64()}
	single := !o.ForceMulti && (o.ForceSingle || r.Chance(0.3))
	if single {
		l.Single = true
		l.Files = []FileSpec{{Length: total}}
		addZeroRuns(r, &l, total)
		return l
	}
	nf := r.Range(1, 6)
	left := total
	fileNo := 0
	addFile := func(n int64) {
		fileNo++
		p := []string{"f" + strconv.Itoa(fileNo) + ".bin"}
		if r.Chance(0.3) {
			p = []string{"d" + strconv.Itoa(r.Range(1, 2)), "f" + strconv.Itoa(fileNo) + ".bin"}
		}
		l.Files = append(l.Files, FileSpec{Path: p, Length: n})
	}
	addPad := func(n int64) {
		fileNo++
		f := FileSpec{Length: n, Pad: true}
		if r.Chance(0.25) {
			f.PadStyle = 1
			f.Path = []string{"_____padding_file_" + strconv.Itoa(fileNo) + "_if you see this file, please update to BitComet"}
		} else {
			f.Path = []string{".pad", strconv.FormatInt(n, 10)}
		}
		l.Files = append(l.Files, f)
	}
	pos := int64(0)
	for i := 0; i < nf && left > 0; i++ {
		if r.Chance(0.12) {
			addFile(0) // zero-length file
		}
		var n int64
		switch r.Intn(5) {
		case 0: // end exactly at a piece boundary
			n = int64(pl)*int64(r.Range(1, 3)) - pos%int64(pl)
		case 1: // end at a block boundary
			n = int64(blk)*int64(r.Range(1, 5)) - pos%int64(blk)
		case 2:
			n = int64(r.Range(1, 3*pl))
		default:
			n = int64(r.Range(1, int(left)))
		}
		if i == nf-1 || n > left {
			n = left
		}
		if n <= 0 {
			n = 1
		}
		addFile(n)
		pos += n
		left -= n
		if o.AllowPad && left > 0 && r.Chance(0.45) {
			var p int64
			switch r.Intn(4) {
			case 0: // pad to the next piece boundary (BEP 47 intent)
				p = (int64(pl) - pos%int64(pl)) % int64(pl)
			case 1: // pad to the next block boundary, then maybe a whole piece
				p = (int64(blk) - pos%int64(blk)) % int64(blk)
				if r.Chance(0.3) {
					p += int64(pl)
				}
			case 2: // whole piece(s) of padding
				p = (int64(pl)-pos%int64(pl))%int64(pl) + int64(pl)
			default:
				p = int64(r.Range(1, pl))
			}
			if p > left {
				p = left
			}
			if p > 0 {
				addPad(p)
				pos += p
				left -= p
				if r.Chance(0.2) && left > 1 { // adjacent padding files
					q := int64(r.Range(1, int(min(left-1, int64(blk)))))
					addPad(q)
					pos += q
					left -= q
				}
			}
		}
	}
	if left > 0 {
		addFile(left)
	}
	// leading padding file sometimes
	if o.AllowPad && r.Chance(0.1) && len(l.Files) > 1 && !l.Files[0].Pad {
		n := l.Files[0].Length
		if n > 0 {
			l.Files[0] = FileSpec{Length: n, Pad: true, Path: []string{".pad", strconv.FormatInt(n, 10)}}
		}
	}
	// a torrent must have at least one real byte
	real := int64(0)
	for _, f := range l.Files {
		if !f.Pad {
			real += f.Length
		}
	}
	if real == 0 {
		for i := range l.Files {
			if l.Files[i].Length > 0 {
				l.Files[i].Pad = false
				l.Files[i].Path = []string{"x.bin"}
				break
			}
		}
	}
	addZeroRuns(r, &l, total)
	return l
}

// RawDict decodes the top-level dictionary of b and returns the raw encoded bytes of each
// value (so that e.g. the info dictionary can be hashed exactly as it was transmitted).
func RawDict(b []byte) (map[string][]byte, error) {
	if len(b) == 0 || b[0] != 'd' {
		return nil, fmt.Errorf("bencode: not a dictionary")
	}
	out := map[string][]byte{}
	i := 1
	for {
		if i >= len(b) {
			return nil, fmt.Errorf("bencode: unterminated dict")
		}
		if b[i] == 'e' {
			return out, nil
		}
		k, n, err := bdecLoose(b, i, 0)
		if err != nil {
			return nil, err
		}
		ks, ok := k.(string)
		if !ok {
			return nil, fmt.Errorf("bencode: non-string key")
		}
		_, n2, err := bdecLoose(b, n, 0)
		if err != nil {
			return nil, err
		}
		out[ks] = b[n:n2]
		i = n2
	}
}

// bdecLoose is bdec without the sorted-keys requirement (third-party encoders differ).
func bdecLoose(b []byte, i, depth int) (any, int, error) {
	if depth > 64 || i >= len(b) {
		return nil, i, fmt.Errorf("bencode: bad input")
	}
	switch c := b[i]; {
	case c == 'i' || (c >= '0' && c <= '9'):
		return bdec(b, i, depth)
	case c == 'l':
		i++
		for {
			if i >= len(b) {
				return nil, i, fmt.Errorf("bencode: unterminated list")
			}
			if b[i] == 'e' {
				return nil, i + 1, nil
			}
			_, n, err := bdecLoose(b, i, depth+1)
			if err != nil {
				return nil, n, err
			}
			i = n
		}
	case c == 'd':
		i++
		for {
			if i >= len(b) {
				return nil, i, fmt.Errorf("bencode: unterminated dict")
			}
			if b[i] == 'e' {
				return nil, i + 1, nil
			}
			_, n, err := bdecLoose(b, i, depth+1)
			if err != nil {
				return nil, n, err
			}
			_, n2, err := bdecLoose(b, n, depth+1)
			if err != nil {
				return nil, n2, err
			}
			i = n2
		}
	}
	return nil, i, fmt.Errorf("bencode: unexpected byte %q", b[i])
}

// addZeroRuns makes parts of the content all zeros in one layout out of five: whole pieces,
// whole files, or arbitrary runs.
func addZeroRuns(r *simrt.Rand, l *Layout, total int64) {
	if !r.Chance(0.2) || total <= 0 {
		return
	}
	pl := int64(l.PieceLen)
	for i := 0; i < r.Range(1, 3); i++ {
		switch r.Intn(3) {
		case 0: // whole piece(s)
			np := (total + pl - 1) / pl
			p := int64(r.Intn(int(np)))
			l.ZeroRuns = append(l.ZeroRuns, [2]int64{p * pl, pl * int64(r.Range(1, 2))})
		case 1: // a whole file
			off := int64(0)
			k := r.Intn(len(l.Files))
			for j := 0; j < k; j++ {
				off += l.Files[j].Length
			}
			l.ZeroRuns = append(l.ZeroRuns, [2]int64{off, l.Files[k].Length})
		default:
			o := int64(r.Intn(int(total)))
			l.ZeroRuns = append(l.ZeroRuns, [2]int64{o, int64(r.Range(1, int(min(total-o, 3*pl))))})
		}
	}
}
