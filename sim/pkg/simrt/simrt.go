// Package simrt is the glue between the patched runtime and the simulation: seed
// installation, deterministic map iteration, goroutine-inherited host context, the event
// log whose hash is the determinism fingerprint of a run, and violation reporting.
package simrt

import (
	"cmp"
	"crypto/sha256"
	"encoding/hex"
	"fmt"
	"reflect"
	"runtime"
	"slices"
	"sort"
	"strings"
	"sync"
	"time"
	"unsafe"
)

//go:linkname simSetSelectSeed runtime.simSetSelectSeed
func simSetSelectSeed(s uint64)

//go:linkname simDraws runtime.simDraws
func simDraws() uint64

//go:linkname simGetLabel runtime.simGetLabel
func simGetLabel() unsafe.Pointer

//go:linkname simSetLabel runtime.simSetLabel
func simSetLabel(p unsafe.Pointer)

//go:linkname simGoid runtime.simGoid
func simGoid() uint64

// SetSeed installs the run seed into the runtime. Must be the first thing done in the bubble.
func SetSeed(s uint64) { simSetSelectSeed(s); T0 = time.Now() }

// SchedDraws returns how many scheduling decisions the runtime has drawn so far.
func SchedDraws() uint64 { return simDraws() }

// T0 is the fake time at which the run started.
var T0 time.Time

// Now returns fake time since the start of the run.
func Now() time.Duration { return time.Since(T0) }

// ---------------------------------------------------------------------------
// Host context (goroutine inherited)

// Host identifies the simulated machine a goroutine belongs to.
type Host struct {
	Name string
	IP   string // dotted IPv4
	// FS and Net are set by simfs / simnet (opaque here to avoid import cycles).
	FS  any
	Net any
	// Role is free-form ("sut", "seed", "peer3", "tracker").
	Role string
}

// Enter binds the calling goroutine (and every goroutine it starts afterwards) to h.
func Enter(h *Host) { simSetLabel(unsafe.Pointer(h)) }

// Cur returns the host of the calling goroutine, or nil.
func Cur() *Host { return (*Host)(simGetLabel()) }

// Go runs f on a new goroutine bound to h.
func Go(h *Host, f func()) {
	go func() {
		Enter(h)
		f()
	}()
}

// ---------------------------------------------------------------------------
// Splitmix PRNG for the "world" stream (latencies, fragment sizes, fault coins). It is
// separate from the runtime's scheduling stream so that oracle/logging work cannot perturb
// the schedule and vice versa.

type Rand struct{ s uint64 }

// NewRand: SplitMix64. The generator's state is a counter, so the seed is passed through the
// output mixer first: with the counter started at a multiple of the seed, the streams of seeds
// s and s+d were the same sequence shifted by d draws, and plans generated from neighbouring
// seeds shared long identical stretches (found when five of 150 plans of one scenario had the
// same peers).
func NewRand(seed uint64) *Rand {
	z := seed + 0x9e3779b97f4a7c15
	z = (z ^ (z >> 30)) * 0xbf58476d1ce4e5b9
	z = (z ^ (z >> 27)) * 0x94d049bb133111eb
	return &Rand{s: z ^ (z >> 31)}
}

func (r *Rand) Uint64() uint64 {
	r.s += 0x9e3779b97f4a7c15
	z := r.s
	z = (z ^ (z >> 30)) * 0xbf58476d1ce4e5b9
	z = (z ^ (z >> 27)) * 0x94d049bb133111eb
	return z ^ (z >> 31)
}
func (r *Rand) Intn(n int) int {
	if n <= 0 {
		return 0
	}
	return int(r.Uint64() % uint64(n))
}
func (r *Rand) Int63n(n int64) int64 {
	if n <= 0 {
		return 0
	}
	return int64(r.Uint64() % uint64(n))
}
func (r *Rand) Float() float64        { return float64(r.Uint64()>>11) / (1 << 53) }
func (r *Rand) Chance(p float64) bool { return r.Float() < p }
func (r *Rand) Bool() bool            { return r.Uint64()&1 == 1 }
func (r *Rand) Range(lo, hi int) int { // inclusive
	if hi <= lo {
		return lo
	}
	return lo + r.Intn(hi-lo+1)
}
func (r *Rand) Dur(lo, hi time.Duration) time.Duration {
	if hi <= lo {
		return lo
	}
	return lo + time.Duration(r.Int63n(int64(hi-lo)+1))
}
func (r *Rand) Bytes(n int) []byte {
	b := make([]byte, n)
	for i := 0; i < n; i += 8 {
		v := r.Uint64()
		for j := 0; j < 8 && i+j < n; j++ {
			b[i+j] = byte(v >> (8 * j))
		}
	}
	return b
}
func (r *Rand) Fork() *Rand         { return NewRand(r.Uint64()) }
func Pick[T any](r *Rand, xs []T) T { return xs[r.Intn(len(xs))] }

// Read implements io.Reader (used as crypto/rand.Reader).
func (r *Rand) Read(p []byte) (int, error) {
	copy(p, r.Bytes(len(p)))
	return len(p), nil
}

// ---------------------------------------------------------------------------
// Deterministic map iteration

var (
	ordMu   sync.Mutex
	ordOf   = map[any]uint64{}
	ordNext uint64
	// UntouchedAmbiguous counts Keys calls that met two or more never-before-seen
	// pointer-like keys at once: their relative order then comes from memory addresses,
	// which is a determinism hole in the harness (reported as a harness error).
	UntouchedAmbiguous int
	UntouchedSites     = map[string]int{}
	mapRand            = NewRand(0x6d6170) // re-seeded by SeedMaps
	// MapShuffle can be switched off to get sorted iteration (debugging).
	MapShuffle = true
)

// SeedMaps seeds the permutation stream used for map iteration order.
// Yield is called (by generated code) before every mutex acquisition in rain. With probability
// YieldP it hands the processor to the other runnable goroutines; the coin comes from a stream
// seeded per run, so the perturbed schedule is as repeatable as the unperturbed one.
var (
	YieldP    float64
	yieldRand *Rand
)

// YieldSleepMax bounds the simulated time a descheduled goroutine loses at a yield point.
var YieldSleepMax = 3 * time.Millisecond

func SetYield(p float64, seed uint64) { YieldP, yieldRand = p, NewRand(seed^0x7969656c64) }

func Yield() {
	if YieldP <= 0 || yieldRand == nil {
		return
	}
	if yieldRand.Chance(YieldP) {
		yields++
		if yieldRand.Chance(0.3) {
			// the goroutine is descheduled for a little simulated time (CPU work otherwise
			// takes none, so critical sections of independent goroutines would never overlap)
			time.Sleep(yieldRand.Dur(0, YieldSleepMax))
		} else {
			runtime.Gosched()
		}
	}
}

// YieldTxOn enables the yield points before database transactions (inserted by simgen before
// every bbolt Update/View/Batch/Begin in rain). Only the registry world switches them on: in the
// API stress world they made one run in thirty of a seed differ under heavy machine load (cause
// not found), and exact replay matters more than those few extra interleavings there.
var YieldTxOn bool

// YieldTx is Yield at a database transaction boundary.
func YieldTx() {
	if YieldTxOn {
		Yield()
	}
}

// YieldSlack is what an oracle reasoning "the client read this message that long ago, so it has
// acted on it" must add when yield points cost simulated time: a message crosses a bounded
// number of lock acquisitions between the reader and the event loop, and each may sleep.
func YieldSlack() time.Duration {
	if YieldP <= 0 {
		return 0
	}
	return 40 * YieldSleepMax
}

var yields int64

func Yields() int64 { return yields }

func SeedMaps(seed uint64) { mapRand = NewRand(seed ^ 0x6d61706d6170) }

func isPtrLike(k reflect.Kind) bool {
	switch k {
	case reflect.Pointer, reflect.Chan, reflect.UnsafePointer, reflect.Func, reflect.Map:
		return true
	}
	return false
}

// Touch registers a pointer-like key the first time it is inserted into a map, giving it
// a deterministic ordinal (deterministic because the execution is). Returns k.
func Touch[K comparable](k K) K {
	touchAny(any(k))
	return k
}

func touchAny(a any) {
	if a == nil {
		return
	}
	v := reflect.ValueOf(a)
	if !isPtrLike(v.Kind()) {
		return
	}
	ordMu.Lock()
	if _, ok := ordOf[a]; !ok {
		ordNext++
		ordOf[a] = ordNext
	}
	ordMu.Unlock()
}

type sortKey struct {
	class int // 0 number, 1 string, 2 ordinal
	u     uint64
	s     string
}

func keyOf(a any, fresh *int) sortKey {
	if a == nil {
		return sortKey{}
	}
	v := reflect.ValueOf(a)
	switch v.Kind() {
	case reflect.Int, reflect.Int8, reflect.Int16, reflect.Int32, reflect.Int64:
		return sortKey{class: 0, u: uint64(v.Int()) ^ (1 << 63)}
	case reflect.Uint, reflect.Uint8, reflect.Uint16, reflect.Uint32, reflect.Uint64, reflect.Uintptr:
		return sortKey{class: 0, u: v.Uint()}
	case reflect.Bool:
		if v.Bool() {
			return sortKey{class: 0, u: 1}
		}
		return sortKey{class: 0}
	case reflect.String:
		return sortKey{class: 1, s: v.String()}
	case reflect.Array:
		if v.Type().Elem().Kind() == reflect.Uint8 {
			b := make([]byte, v.Len())
			for i := range b {
				b[i] = byte(v.Index(i).Uint())
			}
			return sortKey{class: 1, s: string(b)}
		}
	case reflect.Struct:
		// Structs of plain values only (checked by simgen): formatted representation.
		return sortKey{class: 1, s: fmt.Sprintf("%v", a)}
	}
	if isPtrLike(v.Kind()) {
		ordMu.Lock()
		o, ok := ordOf[a]
		if !ok {
			ordNext++
			o = ordNext
			ordOf[a] = o
			*fresh++
		}
		ordMu.Unlock()
		return sortKey{class: 2, u: o}
	}
	panic(fmt.Sprintf("simrt.Keys: unsupported map key type %T", a))
}

// Keys returns the keys of m in a seeded pseudo-random order that does not depend on
// memory addresses or the runtime's map seed.
func Keys[M ~map[K]V, K comparable, V any](m M) []K {
	n := len(m)
	if n == 0 {
		return nil
	}
	type kv struct {
		k  K
		sk sortKey
	}
	ks := make([]kv, 0, n)
	fresh := 0
	for k := range m {
		ks = append(ks, kv{k, keyOf(any(k), &fresh)})
	}
	if fresh >= 2 {
		UntouchedAmbiguous++
		UntouchedSites[fmt.Sprintf("%T", *new(K))]++
	}
	slices.SortFunc(ks, func(a, b kv) int {
		if c := cmp.Compare(a.sk.class, b.sk.class); c != 0 {
			return c
		}
		if c := cmp.Compare(a.sk.u, b.sk.u); c != 0 {
			return c
		}
		return strings.Compare(a.sk.s, b.sk.s)
	})
	out := make([]K, n)
	for i := range ks {
		out[i] = ks[i].k
	}
	if MapShuffle && n > 1 {
		for i := n - 1; i > 0; i-- {
			j := mapRand.Intn(i + 1)
			out[i], out[j] = out[j], out[i]
		}
	}
	return out
}

// ---------------------------------------------------------------------------
// Event log and violations

type Violation struct {
	Property string `json:"property"`
	Oracle   string `json:"oracle"`
	Detail   string `json:"detail"`
	At       string `json:"at"`
	Seq      uint64 `json:"seq"`
}

var (
	logMu      sync.Mutex
	logHash    = sha256.New()
	logLines   []string
	logKeep    = 4000 // last N lines kept for the report
	logTotal   uint64
	Verbose    bool
	violations []Violation
	counters   = map[string]int64{}
	// OnViolation is called (once) when the first violation is recorded.
	OnViolation func(v Violation)
	// StopOnViolation makes Violate end the run at the first violation.
	StopOnViolation = true
)

// Seq returns the global event sequence number (number of log events so far).
func Seq() uint64 {
	logMu.Lock()
	defer logMu.Unlock()
	return logTotal
}

// Logf appends an event to the run log. Events must be deterministic functions of the
// execution (no addresses, no real time).
// FreezeTrace stops the trace hash: events logged afterwards (teardown) are kept in the tail
// but do not count towards the determinism fingerprint.
func FreezeTrace() { logMu.Lock(); frozen = true; logMu.Unlock() }

var frozen bool

// DebugDraws appends the scheduler draw counter to every log line (debugging aid).
var DebugDraws bool

func Logf(format string, a ...any) {
	d := Now()
	line := fmt.Sprintf("%12.6f ", d.Seconds()) + fmt.Sprintf(format, a...)
	if DebugDraws {
		line += fmt.Sprintf(" [draws=%d]", simDraws())
	}
	logMu.Lock()
	logTotal++
	if !frozen {
		logHash.Write([]byte(line))
		logHash.Write([]byte{'\n'})
	}
	if len(logLines) >= 2*logKeep {
		logLines = append(logLines[:0], logLines[logKeep:]...)
	}
	logLines = append(logLines, line)
	logMu.Unlock()
	if Verbose {
		println(line)
	}
}

// TraceHash returns the hash of all events so far.
func TraceHash() string {
	logMu.Lock()
	defer logMu.Unlock()
	return hex.EncodeToString(logHash.Sum(nil))[:24]
}

// LogTail returns up to n last log lines.
func LogTail(n int) []string {
	logMu.Lock()
	defer logMu.Unlock()
	if n > len(logLines) {
		n = len(logLines)
	}
	return append([]string(nil), logLines[len(logLines)-n:]...)
}

// Count bumps a named counter (fault fired counts, probes).
func Count(name string, d int64) {
	logMu.Lock()
	counters[name] += d
	logMu.Unlock()
}

// Counters returns a sorted copy of all counters.
func Counters() map[string]int64 {
	logMu.Lock()
	defer logMu.Unlock()
	out := make(map[string]int64, len(counters))
	for k, v := range counters {
		out[k] = v
	}
	return out
}

func CounterNames() []string {
	c := Counters()
	names := make([]string, 0, len(c))
	for k := range c {
		names = append(names, k)
	}
	sort.Strings(names)
	return names
}

// Violate records a property violation.
func Violate(property, oracle, format string, a ...any) {
	v := Violation{Property: property, Oracle: oracle, Detail: fmt.Sprintf(format, a...), At: Now().String()}
	Logf("VIOLATION %s %s: %s", property, oracle, v.Detail)
	logMu.Lock()
	v.Seq = logTotal
	first := len(violations) == 0
	violations = append(violations, v)
	logMu.Unlock()
	if first && OnViolation != nil {
		OnViolation(v)
	}
}

// ViolateQuiet records a violation without ending the run (collected findings: data races).
func ViolateQuiet(property, oracle, format string, a ...any) {
	v := Violation{Property: property, Oracle: oracle, Detail: fmt.Sprintf(format, a...), At: Now().String()}
	logMu.Lock()
	v.Seq = logTotal
	violations = append(violations, v)
	logMu.Unlock()
}

func Violations() []Violation {
	logMu.Lock()
	defer logMu.Unlock()
	return append([]Violation(nil), violations...)
}
