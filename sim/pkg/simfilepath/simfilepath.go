// Package simfilepath replaces path/filepath in the rain source files that walk torrent
// data: Walk goes to the simulated disk, everything else is re-exported.
package simfilepath

import (
	"io/fs"
	"path/filepath"

	"github.com/cenkalti/rain/v2/internal/zzsim/simfs"
)

type WalkFunc = filepath.WalkFunc

var (
	Join      = filepath.Join
	Dir       = filepath.Dir
	Base      = filepath.Base
	Clean     = filepath.Clean
	Rel       = filepath.Rel
	Ext       = filepath.Ext
	IsAbs     = filepath.IsAbs
	Split     = filepath.Split
	ToSlash   = filepath.ToSlash
	FromSlash = filepath.FromSlash
	SkipDir   = filepath.SkipDir
)

const Separator = filepath.Separator

// Abs: simulated paths are rooted at "/"; relative ones are placed under /cwd.
func Abs(p string) (string, error) {
	if filepath.IsAbs(p) {
		return filepath.Clean(p), nil
	}
	return filepath.Join("/cwd", p), nil
}

func Walk(root string, fn filepath.WalkFunc) error {
	return simfs.Cur().Walk(root, func(p string, info fs.FileInfo, err error) error { return fn(p, info, err) })
}
