package props

import (
	"fmt"
	"os"
	"strconv"
	"testing"
	"testing/synctest"
	"time"

	"github.com/cenkalti/rain/v2/internal/zzsim/simfs"
	"github.com/cenkalti/rain/v2/internal/zzsim/simnet"
	"github.com/cenkalti/rain/v2/internal/zzsim/simrt"
	"github.com/cenkalti/rain/v2/torrent"
)

func TestBoot(t *testing.T) {
	seed, _ := strconv.ParseUint(os.Getenv("SIM_SEED"), 10, 64)
	dir, _ := os.MkdirTemp("/dev/shm", "vsim")
	defer os.RemoveAll(dir)
	torrent.DisableLogging()
	synctest.Test(t, func(t *testing.T) {
		simrt.SetSeed(seed + 1)
		simnet.New(seed)
		h := &simrt.Host{Name: "sut", IP: "10.0.0.1", FS: simfs.New("sut", seed)}
		simrt.Enter(h)
		cfg := torrent.DefaultConfig
		cfg.Database = dir + "/session.db"
		cfg.DataDir = "/data"
		cfg.DHTEnabled = false
		cfg.RPCEnabled = false
		cfg.MaxOpenFiles = 0
		s, err := torrent.NewSession(cfg)
		if err != nil {
			t.Fatal(err)
		}
		time.Sleep(5 * time.Second)
		if err := s.Close(); err != nil {
			t.Fatal(err)
		}
		fmt.Println("boot ok", simrt.TraceHash(), simrt.Now())
		os.Exit(0)
	})
}
