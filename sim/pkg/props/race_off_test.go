//go:build !race

package props

const raceBuild = false
