// Package props is the entry point of a simulation process: one run per OS process.
//
//	SIM_SCENARIO + SIM_SEED [+ SIM_TIER]  generate the plan from the seed, or
//	SIM_PLAN=<file>                        execute a stored plan (replay),
//	SIM_OUT=<file>                         where the JSON result goes (default stdout),
//	SIM_PLAN_OUT=<file>                    write the generated plan there,
//	SIM_VERBOSE=1                          print the event log to stderr while running.
package props

import (
	"encoding/json"
	"fmt"
	"github.com/cenkalti/log"
	"github.com/cenkalti/rain/v2/internal/logger"
	"os"
	"runtime"
	"strconv"
	"strings"
	"syscall"
	"testing"
	"testing/synctest"

	"github.com/cenkalti/rain/v2/internal/zzsim/refbt"
	"github.com/cenkalti/rain/v2/internal/zzsim/simnet"
	"github.com/cenkalti/rain/v2/internal/zzsim/simrt"
	"github.com/cenkalti/rain/v2/internal/zzsim/worlds"
	"github.com/cenkalti/rain/v2/torrent"
)

var prealloc [][]byte

type logHook struct{}

func (logHook) SetFormatter(log.Formatter) {}
func (logHook) SetLevel(log.Level)         {}
func (logHook) Close() error               { return nil }
func (logHook) Handle(r *log.Record) {
	if worlds.RainLog != nil {
		worlds.RainLog(r.Message)
	}
}

func TestSim(t *testing.T) {
	if os.Getenv("SIMRT") == "" {
		fmt.Fprintln(os.Stderr, "harness: SIMRT=1 GOMAXPROCS=1 GOGC=off required")
		os.Exit(3)
	}
	if n, _ := strconv.Atoi(os.Getenv("SIM_PREALLOC")); n > 0 {
		// debugging aid: perturb heap addresses before the bubble
		for i := 0; i < n; i++ {
			prealloc = append(prealloc, make([]byte, 1+i%4000))
		}
	}
	var plan *worlds.Plan
	tier := os.Getenv("SIM_TIER")
	if tier == "" {
		tier = "quick"
	}
	if pf := os.Getenv("SIM_PLAN"); pf != "" {
		b, err := os.ReadFile(pf)
		if err != nil {
			fmt.Fprintln(os.Stderr, "harness: cannot read plan:", err)
			os.Exit(3)
		}
		plan = &worlds.Plan{}
		if err := json.Unmarshal(b, plan); err != nil {
			fmt.Fprintln(os.Stderr, "harness: bad plan:", err)
			os.Exit(3)
		}
	} else {
		seed, _ := strconv.ParseUint(os.Getenv("SIM_SEED"), 10, 64)
		var err error
		plan, err = worlds.Generate(os.Getenv("SIM_SCENARIO"), seed, tier)
		if err != nil {
			fmt.Fprintln(os.Stderr, "harness:", err)
			os.Exit(3)
		}
	}
	if po := os.Getenv("SIM_PLAN_OUT"); po != "" {
		b, _ := json.MarshalIndent(plan, "", " ")
		os.WriteFile(po, b, 0o644)
	}
	if os.Getenv("SIM_GENONLY") != "" {
		os.Exit(0)
	}
	sc := worlds.Scenarios[plan.Scenario]
	if sc == nil {
		fmt.Fprintln(os.Stderr, "harness: unknown scenario", plan.Scenario)
		os.Exit(3)
	}
	tmp, err := os.MkdirTemp("/dev/shm", "vsim-")
	if err != nil {
		fmt.Fprintln(os.Stderr, "harness:", err)
		os.Exit(3)
	}
	os.Setenv("TMPDIR", tmp)
	simrt.Verbose = os.Getenv("SIM_VERBOSE") != ""
	simrt.DebugDraws = os.Getenv("SIM_DEBUGDRAWS") != ""
	refbt.WireLog = os.Getenv("SIM_WIRELOG") != ""
	simnet.Debug = os.Getenv("SIM_NETDEBUG") != ""
	if os.Getenv("SIM_RAINLOG") == "debug" {
		logger.SetDebug()
	}
	if os.Getenv("SIM_RAINLOG") == "" {
		torrent.DisableLogging()
		if plan.Scenario == "corrupt" {
			// the client's log is an observation point of this scenario (hash failures)
			logger.SetHandler(logHook{})
		}
	}
	if v := os.Getenv("SIM_MEMLIMIT_MB"); v != "" {
		// a run must die (and be reported) rather than eat the machine
		var mb uint64
		fmt.Sscan(v, &mb)
		if mb > 0 {
			lim := syscall.Rlimit{Cur: mb << 20, Max: mb << 20}
			syscall.Setrlimit(syscall.RLIMIT_AS, &lim)
		}
	}
	var env *worlds.Env
	finish := func() {
		if os.Getenv("SIM_DUMPSTACKS") != "" && len(simrt.Violations()) > 0 {
			buf := make([]byte, 8<<20)
			n := runtime.Stack(buf, true)
			os.Stderr.Write(buf[:n])
		}
		raceHarness := ""
		if raceBuild {
			raceHarness = collectRaces()
		}
		res := worlds.Result{
			Scenario: plan.Scenario, Seed: plan.Seed, PlanHash: plan.Hash(), TraceHash: simrt.TraceHash(),
			SimTime: simrt.Now().Seconds(), Events: simrt.Seq(), SchedDraws: simrt.SchedDraws(),
			Violations: simrt.Violations(), Counters: simrt.Counters(),
		}
		if env != nil {
			res.Stats = env.Stats
			res.NonTrivial = env.NonTriv
			res.Signature = strings.Join(env.Sig, ";")
		}
		if simrt.UntouchedAmbiguous > 0 {
			res.HarnessErr = fmt.Sprintf("map iteration met %d ambiguous untouched pointer key sets: %v", simrt.UntouchedAmbiguous, simrt.UntouchedSites)
		}
		if raceHarness != "" && res.HarnessErr == "" {
			res.HarnessErr = raceHarness
		}
		if len(res.Violations) > 0 || os.Getenv("SIM_LOGTAIL") != "" {
			res.LogTail = simrt.LogTail(300)
		}
		b, _ := json.Marshal(res)
		if out := os.Getenv("SIM_OUT"); out != "" {
			os.WriteFile(out, b, 0o644)
		} else {
			fmt.Println(string(b))
		}
		os.RemoveAll(tmp)
		os.Exit(0)
	}
	synctest.Test(t, func(t *testing.T) {
		simrt.SetSeed(plan.Seed*2654435761 + 1)
		simrt.OnViolation = func(v simrt.Violation) { finish() }
		env = worlds.NewEnv(plan.Seed, tmp)
		sc.Run(env, plan)
		finish()
	})
}
