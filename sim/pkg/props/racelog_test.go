package props

import (
	"os"
	"path/filepath"
	"regexp"
	"sort"
	"strings"

	"github.com/cenkalti/rain/v2/internal/zzsim/simrt"
)

var reRaceAccess = regexp.MustCompile(`^(Read|Write|Previous read|Previous write|Previous atomic read|Previous atomic write|Atomic read|Atomic write) at 0x[0-9a-f]+ by (main goroutine|goroutine \d+)`)

type raceReport struct {
	kinds  [2]string
	frames [2][]string
}

// raceReports parses the race detector's log (GORACE log_path) into reports.
func raceReports() []raceReport {
	lp := ""
	for _, f := range strings.Fields(os.Getenv("GORACE")) {
		if strings.HasPrefix(f, "log_path=") {
			lp = strings.TrimPrefix(f, "log_path=")
		}
	}
	if lp == "" {
		return nil
	}
	files, _ := filepath.Glob(lp + ".*")
	var out []raceReport
	for _, fn := range files {
		b, err := os.ReadFile(fn)
		if err != nil {
			continue
		}
		for _, blk := range strings.Split(string(b), "==================") {
			if !strings.Contains(blk, "WARNING: DATA RACE") {
				continue
			}
			var r raceReport
			idx := -1
			for _, ln := range strings.Split(blk, "\n") {
				if m := reRaceAccess.FindStringSubmatch(ln); m != nil {
					idx++
					if idx < 2 {
						r.kinds[idx] = strings.ToLower(strings.TrimPrefix(m[1], "Previous "))
					}
					continue
				}
				if strings.HasPrefix(ln, "Goroutine ") || strings.HasPrefix(ln, "Mutex ") {
					idx = 2
				}
				if idx >= 0 && idx < 2 && strings.HasPrefix(ln, "  ") && !strings.HasPrefix(ln, "      ") {
					fn := strings.TrimSpace(ln)
					if i := strings.LastIndex(fn, "("); i > 0 {
						fn = fn[:i]
					}
					r.frames[idx] = append(r.frames[idx], fn)
				}
			}
			if idx >= 1 {
				out = append(out, r)
			}
		}
		os.Remove(fn)
	}
	return out
}

func skipFrame(f string) bool {
	return strings.HasPrefix(f, "runtime.") || strings.HasPrefix(f, "sync.") || strings.HasPrefix(f, "sync/atomic.") || strings.HasPrefix(f, "internal/") || strings.HasPrefix(f, "bytes.") || strings.HasPrefix(f, "strings.") || strings.HasPrefix(f, "encoding/") || strings.HasPrefix(f, "reflect.") || strings.HasPrefix(f, "fmt.") || strings.HasPrefix(f, "sort.") || strings.HasPrefix(f, "slices.") || strings.HasPrefix(f, "maps.")
}

// entry returns the outermost frame of the stack that is rain code (the API method or the
// goroutine's top function the access happened under).
func entry(frames []string) string {
	e := ""
	for _, f := range frames {
		if skipFrame(f) || strings.Contains(f, "/internal/zzsim/") || !strings.Contains(f, "cenkalti/rain") {
			continue
		}
		e = f
	}
	return short(e)
}

// site returns the innermost frame that is neither runtime nor standard library glue, and
// whether the access happens in harness code (memory owned by the simulator).
func site(frames []string) (string, bool) {
	for _, f := range frames {
		if skipFrame(f) {
			continue
		}
		return f, strings.Contains(f, "/internal/zzsim/")
	}
	if len(frames) > 0 {
		return frames[0], false
	}
	return "?", false
}

// collectRaces turns race reports into C20 violations (rain code involved) or a harness error
// (both accesses inside the simulator's own packages).
func collectRaces() (harness string) {
	seen := map[string]bool{}
	for _, r := range raceReports() {
		a, ah := site(r.frames[0])
		b, bh := site(r.frames[1])
		if ah && bh {
			// memory owned by the simulator (scripted peers, simulated disk): not the subject,
			// and harmless under the one-goroutine-at-a-time scheduler
			simrt.Count("probe.race.harness_only", 1)
			continue
		}
		d := func(kind, fn string, frames []string) string {
			// the innermost frame plus its caller (small helpers like status() or URL() are
			// called from many places)
			s := kind + " in " + short(fn)
			next := false
			for _, f := range frames {
				if next {
					if !skipFrame(f) && !strings.Contains(f, "/internal/zzsim/") {
						s += " < " + short(f)
					}
					break
				}
				if f == fn {
					next = true
				}
			}
			return s
		}
		x := []string{d(r.kinds[0], a, r.frames[0]), d(r.kinds[1], b, r.frames[1])}
		sort.Strings(x)
		key := strings.Join(x, " <-> ")
		if seen[key] {
			continue
		}
		seen[key] = true
		simrt.ViolateQuiet("C20", "race", "data race: %s", key)
	}
	return
}

func short(f string) string {
	return strings.TrimPrefix(f, "github.com/cenkalti/rain/v2/")
}
