package worlds

import (
	"crypto/sha256"
	"encoding/hex"
	"encoding/json"
	"fmt"
	"time"

	"github.com/cenkalti/rain/v2/internal/zzsim/gen"
	"github.com/cenkalti/rain/v2/internal/zzsim/refbt"
	"github.com/cenkalti/rain/v2/internal/zzsim/simnet"
	"github.com/cenkalti/rain/v2/internal/zzsim/simrt"
)

// Plan is the explicit, replayable description of one run: the runtime seed plus the
// scenario-specific plan (generated from the seed once, then stored and minimised as data).
type Plan struct {
	Scenario  string          `json:"scenario"`
	Seed      uint64          `json:"seed"`
	Tier      string          `json:"tier,omitempty"`
	Transfer  *TransferPlan   `json:"transfer,omitempty"`
	Seeding   *SeedPlan       `json:"seeding,omitempty"`
	Lifecycle *LifePlan       `json:"lifecycle,omitempty"`
	Trackers  *TrackerPlan    `json:"trackers,omitempty"`
	Policy    *PolicyPlan     `json:"policy,omitempty"`
	Registry  *RegistryPlan   `json:"registry,omitempty"`
	Pair      *PairPlan       `json:"pair,omitempty"`
	MSE       *MSEPlan        `json:"mse,omitempty"`
	Meta      *MetaPlan       `json:"meta,omitempty"`
	Paths     *PathPlan       `json:"paths,omitempty"`
	Create    *CreatePlan     `json:"create,omitempty"`
	Generic   json.RawMessage `json:"generic,omitempty"`
}

func (p *Plan) Hash() string {
	b, _ := json.Marshal(p)
	h := sha256.Sum256(b)
	return hex.EncodeToString(h[:8])
}

// Scenario registry.
type Scenario struct {
	Name string
	// Gen fills the plan from the seed.
	Gen func(r *simrt.Rand, tier string, p *Plan)
	Run func(env *Env, p *Plan)
}

var Scenarios = map[string]*Scenario{}

func Register(s *Scenario) { Scenarios[s.Name] = s }

func Generate(name string, seed uint64, tier string) (*Plan, error) {
	s := Scenarios[name]
	if s == nil {
		return nil, fmt.Errorf("unknown scenario %q", name)
	}
	p := &Plan{Scenario: name, Seed: seed, Tier: tier}
	s.Gen(simrt.NewRand(seed^0x706c616e), tier, p)
	return p, nil
}

// ---- transfer plan generators ---------------------------------------------------------

func netCfg(r *simrt.Rand) simnet.Config {
	c := simnet.DefaultConfig()
	c.FragMode = r.Intn(4)
	c.LatMax = r.Dur(2*time.Millisecond, 120*time.Millisecond)
	c.Window = simrt.Pick(r, []int{4 << 10, 32 << 10, 256 << 10})
	c.ShortReadP = r.Float() * 0.6
	return c
}

func honestPeer(r *simrt.Rand, T gen.Layout, name string, np int) PeerSpec {
	b := refbt.Behavior{Fast: r.Chance(0.6), Ext: true, Have: refbt.FullBits(np), Announce: simrt.Pick(r, []string{"auto", "auto", "bitfield", "haves"}),
		ServeDelay: [2]time.Duration{0, r.Dur(0, 20*time.Millisecond)}, MetaMode: "honest", ReorderServe: r.Chance(0.3)}
	if r.Chance(0.3) {
		b.ExtReqq = r.Range(1, 300)
	}
	if r.Chance(0.3) {
		b.UnchokeDelay = r.Dur(0, 3*time.Second)
	}
	if r.Chance(0.2) {
		b.RedundantHaves = r.Range(1, 6)
	}
	return PeerSpec{Name: name, B: b, Mode: "dial", At: r.Dur(0, 2*time.Second), Redial: r.Dur(5*time.Second, 40*time.Second), Honest: true}
}

// manyFilesLayout: hundreds of tiny files, so that the info dictionary does not fit one
// 16 KiB ut_metadata piece while the content stays small.
func manyFilesLayout(r *simrt.Rand) gen.Layout {
	l := gen.Layout{Name: fmt.Sprintf("many%d", r.Intn(100000)), PieceLen: 16384, DataSeed: r.Uint64()}
	n := r.Range(450, 900)
	for i := 0; i < n; i++ {
		l.Files = append(l.Files, gen.FileSpec{Path: []string{fmt.Sprintf("d%02d", i%37), fmt.Sprintf("file-%04d.bin", i)}, Length: int64(r.Range(1, 120))})
	}
	return l
}

func numPiecesOf(l gen.Layout) int {
	var tot int64
	for _, f := range l.Files {
		tot += f.Length
	}
	return int((tot + int64(l.PieceLen) - 1) / int64(l.PieceLen))
}

// knobsTransfer randomises the configuration values relevant to a download.
func knobsTransfer(r *simrt.Rand) Knobs {
	k := Knobs{}
	k.Sequential = r.Chance(0.35)
	switch r.Intn(4) {
	case 0:
		k.DisableOutgoingEncryption = true
	case 1:
		// default: try encryption, fall back
	}
	if r.Chance(0.5) {
		k.MaxRequestsOut = r.Range(1, 64)
		k.DefaultRequestsOut = r.Range(1, 64)
	}
	if r.Chance(0.5) {
		k.EndgameMaxDuplicateDownloads = r.Range(1, 4)
	}
	if r.Chance(0.4) {
		k.RequestTimeout = r.Dur(2*time.Second, 20*time.Second)
	}
	if r.Chance(0.3) {
		k.WriteCacheSize = int64(r.Range(1, 8)) * (64 << 10)
	}
	if r.Chance(0.3) {
		k.MaxPeerDial = r.Range(1, 4)
	}
	if r.Chance(0.3) {
		k.MaxPeerAccept = r.Range(1, 4)
	}
	k.PeerConnectTimeout = r.Dur(1*time.Second, 5*time.Second)
	return k
}

func genTransferBase(r *simrt.Rand, tier string) *TransferPlan {
	o := gen.GenOpts{MaxPieces: 16, MaxPieceLen: 64 << 10, AllowPad: true}
	if tier == "thorough" {
		o.MaxPieces = 48
		o.MaxPieceLen = 128 << 10
	}
	if r.Chance(0.1) {
		// many small pieces: a web seed request then spans several pieces (5% of the torrent per
		// request), the picker's lists get long
		o.MinPieces, o.MaxPieces, o.MaxPieceLen = 40, 160, 16<<10
	}
	l := gen.RandomLayout(r, o)
	tp := &TransferPlan{Layout: l, K: knobsTransfer(r), Net: netCfg(r)}
	if tp.K.WriteCacheSize > 0 && tp.K.WriteCacheSize < int64(l.PieceLen) {
		tp.K.WriteCacheSize = int64(l.PieceLen) // at least one piece must fit
	}
	tp.DiskWriteLatMax = simrt.Pick(r, []time.Duration{time.Millisecond, 20 * time.Millisecond, 300 * time.Millisecond})
	tp.DiskInstant = r.Chance(0.15)
	return tp
}

func init() {
	// C10 style: honest sources only (fault-free configuration of the transfer world)
	Register(&Scenario{Name: "transfer_clean", Gen: func(r *simrt.Rand, tier string, p *Plan) {
		tp := genTransferBase(r, tier)
		np := numPiecesOf(tp.Layout)
		n := r.Range(1, 3)
		for i := 0; i < n; i++ {
			ps := honestPeer(r, tp.Layout, fmt.Sprintf("h%d", i), np)
			if r.Chance(0.4) {
				ps.Mode, ps.Via = "listen", "manual"
			}
			tp.Peers = append(tp.Peers, ps)
		}
		if r.Chance(0.4) {
			tp.Webseeds = append(tp.Webseeds, WebseedSpec{Name: "w0", Mode: "honest", Honest: true})
			if r.Chance(0.3) {
				tp.Peers = nil // web seed only
			}
		}
		tp.Magnet = len(tp.Peers) > 0 && len(tp.Webseeds) == 0 && r.Chance(0.3)
		tp.FaultsStop = 0
		tp.Bound = 30 * time.Minute
		tp.Liveness = true
		p.Transfer = tp
	}, Run: func(env *Env, p *Plan) { RunTransfer(env, p.Transfer) }})

	// C01/C10 style: honest source(s) + byzantine peers / faulty web seeds + commands
	Register(&Scenario{Name: "transfer_byz", Gen: func(r *simrt.Rand, tier string, p *Plan) {
		tp := genTransferBase(r, tier)
		np := numPiecesOf(tp.Layout)
		tp.FaultsStop = r.Dur(5*time.Second, 90*time.Second)
		hp := honestPeer(r, tp.Layout, "h0", np)
		if r.Chance(0.5) {
			hp.At = r.Dur(0, tp.FaultsStop) // honest source may arrive late
		}
		tp.Peers = append(tp.Peers, hp)
		nb := r.Range(1, 4)
		for i := 0; i < nb; i++ {
			b := refbt.Behavior{Fast: r.Chance(0.5), Ext: true, Announce: "auto", ServeDelay: [2]time.Duration{0, r.Dur(0, 50*time.Millisecond)}, MetaMode: simrt.Pick(r, []string{"honest", "reject", "silent", "garbage", "wrongbytes", "wrongsize", "dup", "unrequested"})}
			have := refbt.NewBits(np)
			frac := r.Float()
			for j := 0; j < np; j++ {
				if r.Chance(frac) || frac > 0.8 {
					have.Set(j)
				}
			}
			b.Have = have
			stays := false
			switch r.Intn(10) {
			case 0:
				b.CorruptP = r.Float() * 0.3
				b.HangupAfterCorrupt = r.Chance(0.3)
			case 1:
				b.CorruptPieces = map[int]bool{r.Intn(np): true}
				b.HangupAfterCorrupt = r.Chance(0.5)
			case 2:
				b.WrongLenP = 0.1
			case 3:
				b.DupP = 0.3
			case 4:
				b.UnrequestedP = 0.2
			case 5:
				b.OutOfRangeP = 0.1
			case 6:
				b.Snub = true
				stays = r.Chance(0.5)
			case 7:
				b.SnubAfter = r.Range(1, 20)
				stays = r.Chance(0.5)
			case 8:
				b.ChokeFlapEvery = r.Dur(200*time.Millisecond, 5*time.Second)
				stays = r.Chance(0.5)
			case 9:
				b.DisconnectAfterBlocks = r.Range(1, 30)
			}
			if r.Chance(0.2) {
				b.RejectP = 0.2
			}
			if r.Chance(0.2) {
				b.NeverUnchoke = true
				if b.Fast {
					for k := 0; k < r.Range(1, 4); k++ {
						b.AllowedFast = append(b.AllowedFast, uint32(r.Intn(np)))
					}
				}
			}
			if r.Chance(0.15) {
				b.LieHave = []int{r.Intn(np)}
			}
			ps := PeerSpec{Name: fmt.Sprintf("b%d", i), B: b, Mode: simrt.Pick(r, []string{"dial", "listen"}), At: r.Dur(0, tp.FaultsStop/2), Via: "manual", Stays: stays && !b.NeverUnchoke && b.RejectP == 0 && len(b.LieHave) == 0}
			if ps.Mode == "dial" && r.Chance(0.5) {
				ps.Redial = r.Dur(1*time.Second, 10*time.Second)
			}
			if r.Chance(0.2) {
				ps.ResetAfterBytes = int64(r.Range(1, 200000))
			}
			if r.Chance(0.2) {
				ps.StallAt, ps.StallFor = r.Dur(0, tp.FaultsStop), r.Dur(time.Second, 60*time.Second)
			}
			tp.Peers = append(tp.Peers, ps)
		}
		if r.Chance(0.4) {
			tp.Webseeds = append(tp.Webseeds, WebseedSpec{Name: "w0", Mode: simrt.Pick(r, []string{"404", "500", "norange", "short", "stall", "corrupt", "reset"}), FaultP: simrt.Pick(r, []float64{1, 0.5, 0.2})})
		}
		if r.Chance(0.3) {
			tp.Webseeds = append(tp.Webseeds, WebseedSpec{Name: "wh", Mode: "honest", Honest: true})
		}
		// commands
		if r.Chance(0.4) {
			t := r.Dur(0, tp.FaultsStop)
			for k := 0; k < r.Range(1, 3); k++ {
				tp.Steps = append(tp.Steps, Step{At: t, Kind: "stop"})
				t += r.Dur(0, 8*time.Second)
				tp.Steps = append(tp.Steps, Step{At: t, Kind: "start"})
				t += r.Dur(0, 10*time.Second)
			}
		}
		for i := range tp.Steps {
			tp.Steps[i].At = min(tp.Steps[i].At, tp.FaultsStop)
		}
		if r.Chance(0.3) {
			at := r.Dur(0, tp.FaultsStop)
			tp.Steps = append(tp.Steps, Step{At: at, Kind: "partition", Arg: "h0", Dur: min(r.Dur(time.Second, 30*time.Second), tp.FaultsStop-at)})
		}
		tp.Magnet = len(tp.Webseeds) == 0 && r.Chance(0.25)
		if !tp.Magnet && r.Chance(0.15) {
			// the only honest source is a web seed; the peers around it stall, choke and lie
			tp.Peers = tp.Peers[1:]
			hasHonestWS := false
			for _, ws := range tp.Webseeds {
				hasHonestWS = hasHonestWS || ws.Honest
			}
			if !hasHonestWS {
				tp.Webseeds = append(tp.Webseeds, WebseedSpec{Name: "wh", Mode: "honest", Honest: true})
			}
			for i := range tp.Webseeds {
				if tp.Webseeds[i].Honest {
					tp.Webseeds[i].DelayMax = simrt.Pick(r, []time.Duration{0, 500 * time.Millisecond, 4 * time.Second})
				}
			}
			for i := range tp.Steps {
				if tp.Steps[i].Kind == "partition" {
					tp.Steps[i].Kind = "announce" // the partition step names h0
				}
			}
		}
		if r.Chance(0.2) { // transient disk write errors (ENOSPC/EIO) while faults flow
			for k := 0; k < r.Range(1, 2); k++ {
				tp.WriteErrAt = append(tp.WriteErrAt, r.Range(1, 2*np+2))
			}
		}
		tp.Bound = 2 * time.Hour
		tp.Liveness = true
		p.Transfer = tp
	}, Run: func(env *Env, p *Plan) { RunTransfer(env, p.Transfer) }})

	// C01 ban clause: corrupt peers that alone hold (disjoint sets of) pieces, hang up right
	// after the corrupt piece or stay, and keep coming back from the same address.
	Register(&Scenario{Name: "corrupt", Gen: func(r *simrt.Rand, tier string, p *Plan) {
		tp := genTransferBase(r, tier)
		tp.Webseeds = nil
		np := numPiecesOf(tp.Layout)
		tp.FaultsStop = r.Dur(30*time.Second, 90*time.Second)
		n := r.Range(1, 3)
		for i := 0; i < n; i++ {
			b := refbt.Behavior{Fast: r.Chance(0.5), Ext: true, Announce: "auto", ServeDelay: [2]time.Duration{0, r.Dur(0, 30*time.Millisecond)}, MetaMode: "honest"}
			have := refbt.NewBits(np)
			for j := i; j < np; j += n {
				have.Set(j)
			}
			b.Have = have
			if r.Chance(0.5) {
				b.CorruptP = 1
			} else {
				b.CorruptPieces = map[int]bool{}
				for j := i; j < np; j += n {
					if r.Chance(0.6) {
						b.CorruptPieces[j] = true
					}
				}
			}
			b.HangupAfterCorrupt = r.Chance(0.5)
			ps := PeerSpec{Name: fmt.Sprintf("c%d", i), B: b, Mode: "dial", At: r.Dur(0, 5*time.Second), Redial: r.Dur(500*time.Millisecond, 8*time.Second), Via: "manual"}
			tp.Peers = append(tp.Peers, ps)
		}
		hp := honestPeer(r, tp.Layout, "h0", np)
		hp.At = tp.FaultsStop - r.Dur(0, 3*time.Second)
		tp.Peers = append(tp.Peers, hp)
		tp.Bound = 2 * time.Hour
		tp.Liveness = true
		p.Transfer = tp
	}, Run: func(env *Env, p *Plan) { RunTransfer(env, p.Transfer) }})

	// C12 policy clause: forced encryption against peers that only speak plaintext
	Register(&Scenario{Name: "encpolicy", Gen: func(r *simrt.Rand, tier string, p *Plan) {
		tp := genTransferBase(r, tier)
		np := numPiecesOf(tp.Layout)
		tp.K.DisableOutgoingEncryption = false
		switch r.Intn(3) {
		case 0:
			tp.K.ForceOutgoingEncryption = true
		case 1:
			tp.K.ForceIncomingEncryption = true
		default:
			tp.K.ForceOutgoingEncryption, tp.K.ForceIncomingEncryption = true, true
		}
		tp.K.PeerHandshakeTimeout = r.Dur(2*time.Second, 8*time.Second)
		tp.PreSeeded = r.Chance(0.3)
		tp.FaultsStop = r.Dur(20*time.Second, 60*time.Second)
		tp.Bound = 10 * time.Second
		tp.Liveness = false
		tp.Webseeds = nil
		for i := 0; i < r.Range(1, 4); i++ {
			ps := honestPeer(r, tp.Layout, fmt.Sprintf("h%d", i), np)
			ps.Mode = simrt.Pick(r, []string{"dial", "listen"})
			ps.Via = "manual"
			ps.Redial = r.Dur(time.Second, 8*time.Second)
			if tp.PreSeeded {
				ps.B.Leech, ps.B.LeechInterested = true, true
			}
			tp.Peers = append(tp.Peers, ps)
		}
		p.Transfer = tp
	}, Run: func(env *Env, p *Plan) { RunTransfer(env, p.Transfer) }})

	// C20: concurrent API and RPC users while the torrent transfers
	Register(&Scenario{Name: "apistress", Gen: func(r *simrt.Rand, tier string, p *Plan) {
		tp := genTransferBase(r, tier)
		np := numPiecesOf(tp.Layout)
		tp.K.RPCEnabled = true
		tp.K.ResumeWriteInterval = simrt.Pick(r, []time.Duration{50 * time.Millisecond, 200 * time.Millisecond, time.Second, 3 * time.Second})
		tp.FaultsStop = r.Dur(20*time.Second, 60*time.Second)
		tp.Bound = 30 * time.Second
		tp.Liveness = false
		tp.DiskWriteLatMax = simrt.Pick(r, []time.Duration{time.Millisecond, 50 * time.Millisecond, 500 * time.Millisecond})
		for i := 0; i < r.Range(1, 4); i++ {
			ps := honestPeer(r, tp.Layout, fmt.Sprintf("h%d", i), np)
			ps.B.ServeDelay = [2]time.Duration{0, r.Dur(0, 300*time.Millisecond)}
			if r.Chance(0.4) {
				ps.B.Leech, ps.B.LeechInterested, ps.B.LeechPipeline = true, true, r.Range(1, 20)
			}
			if r.Chance(0.4) {
				ps.Mode, ps.Via = "listen", "manual"
			}
			tp.Peers = append(tp.Peers, ps)
		}
		if r.Chance(0.4) {
			tp.Webseeds = append(tp.Webseeds, WebseedSpec{Name: "w0", Mode: "honest", Honest: true})
		}
		tp.LiveTrackers = r.Range(0, 3)
		tp.K.TrackerMinAnnounceInterval = time.Second
		tp.YieldP = simrt.Pick(r, []float64{0, 0.05, 0.2, 0.5})
		tp.YieldSleep = simrt.Pick(r, []time.Duration{3 * time.Millisecond, 50 * time.Millisecond, 300 * time.Millisecond})
		tp.API = &APISpec{Clients: r.Range(2, 5), Ops: r.Range(20, 120), RPC: r.Chance(0.6), Heavy: r.Chance(0.6), Gap: [2]time.Duration{0, r.Dur(time.Millisecond, time.Second)}}
		p.Transfer = tp
	}, Run: func(env *Env, p *Plan) { RunTransfer(env, p.Transfer) }})

	// C17: every configured limit under swarm load (see limits.go)
	Register(&Scenario{Name: "limits", Gen: func(r *simrt.Rand, tier string, p *Plan) {
		tp := genTransferBase(r, tier)
		np := numPiecesOf(tp.Layout)
		k := &tp.K
		k.MaxPeerDial, k.MaxPeerAccept = r.Range(1, 4), r.Range(1, 4)
		k.MaxPeerAddresses = r.Range(2, 20)
		k.WebseedMaxSources, k.WebseedMaxDownloads = r.Range(1, 3), r.Range(1, 2)
		k.WriteCacheSize = int64(r.Range(1, 4)) * int64(tp.Layout.PieceLen)
		k.ReadCacheSize = int64(simrt.Pick(r, []int{64 << 10, 256 << 10, 1 << 20}))
		k.ReadCacheBlockSize = int64(simrt.Pick(r, []int{16 << 10, 32 << 10, 64 << 10}))
		k.ParallelReads = uint(r.Range(1, 2))
		k.PeerHandshakeTimeout = r.Dur(2*time.Second, 10*time.Second)
		if r.Chance(0.5) {
			k.SpeedLimitDownload = int64(r.Range(8, 256))
		}
		if r.Chance(0.5) {
			k.SpeedLimitUpload = int64(r.Range(8, 256))
		}
		if r.Chance(0.5) {
			k.MaxRequestsIn = r.Range(1, 20)
		}
		k.UnchokedPeers = r.Range(1, 3)
		tp.PreSeeded = r.Chance(0.4)
		tp.FaultsStop = r.Dur(40*time.Second, 100*time.Second)
		tp.Bound = 60 * time.Second
		tp.Liveness = false
		n := r.Range(3, 9)
		for i := 0; i < n; i++ {
			ps := honestPeer(r, tp.Layout, fmt.Sprintf("h%d", i), np)
			ps.Mode = simrt.Pick(r, []string{"dial", "listen"})
			ps.Via = "manual"
			ps.At = r.Dur(0, tp.FaultsStop/2)
			ps.Redial = r.Dur(time.Second, 10*time.Second)
			if tp.PreSeeded || r.Chance(0.3) {
				ps.B.Leech, ps.B.LeechInterested, ps.B.LeechPipeline = true, true, r.Range(1, 40)
				if tp.PreSeeded {
					ps.B.Have = refbt.NewBits(np)
				}
			}
			if r.Chance(0.3) {
				ps.B.DisconnectAfterBlocks = r.Range(1, 30)
			}
			tp.Peers = append(tp.Peers, ps)
		}
		if !tp.PreSeeded {
			for i := 0; i < r.Range(0, 5); i++ {
				tp.Webseeds = append(tp.Webseeds, WebseedSpec{Name: fmt.Sprintf("w%d", i), Mode: "honest", Honest: true})
			}
		}
		ls := &LimitsSpec{Balance: r.Chance(0.6), BogusAddrs: simrt.Pick(r, []int{0, 5, 60})}
		if !tp.PreSeeded && r.Chance(0.3) {
			// contention for the memory of pieces in flight: room for one or two pieces, every
			// peer connected and interested in the client (kept at completion), slow disk: requests
			// for memory queue up and are still queued when the torrent leaves Downloading
			k.WriteCacheSize = int64(r.Range(1, 2)) * int64(tp.Layout.PieceLen)
			k.MaxPeerDial, k.MaxPeerAccept = 10, 10
			k.SpeedLimitDownload = 0
			// a fast disk: the last piece is written while the queue is still being drained
			tp.DiskWriteLatMax = simrt.Pick(r, []time.Duration{time.Millisecond, time.Millisecond, 50 * time.Millisecond, time.Second})
			tp.DiskInstant = r.Chance(0.6)
			tp.Webseeds = nil
			for i := range tp.Peers {
				b := &tp.Peers[i].B
				b.Leech, b.LeechInterested, b.LeechPipeline = true, true, r.Range(1, 8)
				b.DisconnectAfterBlocks = 0
				tp.Peers[i].At = r.Dur(0, 3*time.Second)
				// slow serving: one download occupies the memory for long
				b.ServeDelay = [2]time.Duration{r.Dur(0, 200*time.Millisecond), r.Dur(200*time.Millisecond, 2*time.Second)}
				if r.Chance(0.7) {
					// every unchoke makes the client ask for memory again: the queue gets long
					b.ChokeFlapEvery = r.Dur(30*time.Millisecond, time.Second)
				}
			}
			ls.Balance = true
		}
		for i := 0; i < r.Range(0, 4); i++ {
			ls.BadHS = append(ls.BadHS, BadHSSpec{Name: fmt.Sprintf("x%d", i), Mode: simrt.Pick(r, []string{"dial", "dial", "listen"}), Kind: simrt.Pick(r, []string{"silent", "garbage", "wronghash", "slow", "close"}), At: r.Dur(0, tp.FaultsStop/2), N: r.Range(1, 4)})
		}
		if tp.PreSeeded && r.Chance(0.6) {
			ls.Flood = simrt.Pick(r, []int{60, 300})
			ls.FloodFast = r.Chance(0.5)
			ls.LateCancels = simrt.Pick(r, []int{0, 3, 12})
		}
		tp.Limits = ls
		p.Transfer = tp
	}, Run: func(env *Env, p *Plan) { RunTransfer(env, p.Transfer) }})

	// C09: piece-picker stress: a swarm of partial, stalling, choking peers contending for few
	// pieces, some piece held by nobody for a long time (no end game), tiny duplicate limits.
	Register(&Scenario{Name: "picker", Gen: func(r *simrt.Rand, tier string, p *Plan) {
		tp := genTransferBase(r, tier)
		np := numPiecesOf(tp.Layout)
		tp.K.EndgameMaxDuplicateDownloads = simrt.Pick(r, []int{1, 1, 2, 3})
		tp.K.RequestTimeout = r.Dur(2*time.Second, 6*time.Second)
		tp.FaultsStop = r.Dur(40*time.Second, 120*time.Second)
		// the contended pieces and the piece nobody has
		hot := refbt.NewBits(np)
		for j := 0; j < r.Range(1, 3); j++ {
			hot.Set(r.Intn(np))
		}
		missing := r.Intn(np)
		n := r.Range(2, 7)
		for i := 0; i < n; i++ {
			b := refbt.Behavior{Fast: r.Chance(0.4), Ext: true, Announce: simrt.Pick(r, []string{"auto", "bitfield", "haves"}), ServeDelay: [2]time.Duration{0, r.Dur(0, 200*time.Millisecond)}, MetaMode: "honest"}
			have := refbt.NewBits(np)
			for j := 0; j < np; j++ {
				if j != missing && (hot.Has(j) || r.Chance(0.15)) {
					have.Set(j)
				}
			}
			b.Have = have
			stays := false
			switch r.Intn(6) {
			case 0, 1:
				b.Snub = true
				if r.Chance(0.4) {
					// silent, and after the client has given up on it (snubbed) it chokes and
					// unchokes again: the client asks again and is stalled a second time. It stays.
					b.ChokeFlapEvery = tp.K.RequestTimeout + r.Dur(500*time.Millisecond, 2*tp.K.RequestTimeout)
					b.ChokeFlaps = simrt.Pick(r, []int{2, 2, 4, 0})
					stays = true
				}
			case 2:
				b.SnubAfter = r.Range(1, 6)
			case 3:
				b.ChokeFlapEvery = r.Dur(500*time.Millisecond, 8*time.Second)
			case 4:
				b.ServeDelay = [2]time.Duration{time.Second, r.Dur(time.Second, 10*time.Second)}
			case 5:
				// plain partial peer
			}
			if r.Chance(0.15) {
				b.DisconnectAfterBlocks = r.Range(1, 10)
			}
			if r.Chance(0.2) {
				b.UnchokeDelay = r.Dur(0, 10*time.Second)
			}
			if r.Chance(0.4) {
				b.RedundantHaves = r.Range(1, 6)
			}
			ps := PeerSpec{Name: fmt.Sprintf("s%d", i), B: b, Mode: simrt.Pick(r, []string{"dial", "listen"}), At: r.Dur(0, tp.FaultsStop/2), Via: "manual", Stays: stays}
			if ps.Mode == "dial" && r.Chance(0.3) {
				ps.Redial = r.Dur(2*time.Second, 20*time.Second)
			}
			tp.Peers = append(tp.Peers, ps)
		}
		hp := honestPeer(r, tp.Layout, "h0", np)
		hp.At = tp.FaultsStop - r.Dur(0, 5*time.Second)
		tp.Peers = append(tp.Peers, hp)
		if r.Chance(0.35) {
			// a slow honest web seed: its download stays active while the choking, flapping and
			// partial peers announce pieces inside its range (the picker's web-seed branch)
			tp.Webseeds = append(tp.Webseeds, WebseedSpec{Name: "ws", Mode: "honest", Honest: true, DelayMax: simrt.Pick(r, []time.Duration{500 * time.Millisecond, 3 * time.Second, 10 * time.Second})})
			// throttled, so that the web seed is still at work when the peers arrive, and peers
			// that keep the client choked for a while after connecting
			tp.K.SpeedLimitDownload = int64(r.Range(4, 48))
			if np < 40 && r.Chance(0.7) {
				tp.Layout = gen.RandomLayout(r, gen.GenOpts{MinPieces: 40, MaxPieces: 160, MaxPieceLen: 16 << 10, AllowPad: true})
				np2 := numPiecesOf(tp.Layout)
				for i := range tp.Peers {
					old := tp.Peers[i].B.Have
					nb := refbt.NewBits(np2)
					for j := 0; j < np2; j++ {
						if tp.Peers[i].Honest || old.Has(j%np) {
							nb.Set(j)
						}
					}
					tp.Peers[i].B.Have = nb
				}
			}
			for i := range tp.Peers {
				if !tp.Peers[i].Honest && r.Chance(0.5) {
					tp.Peers[i].B.UnchokeDelay = r.Dur(3*time.Second, 40*time.Second)
				}
			}
		}
		tp.Bound = 2 * time.Hour
		tp.Liveness = true
		p.Transfer = tp
	}, Run: func(env *Env, p *Plan) { RunTransfer(env, p.Transfer) }})

	// C08: hostile peers attack the SUT in every state while an honest source keeps transferring
	Register(&Scenario{Name: "hostile", Gen: func(r *simrt.Rand, tier string, p *Plan) {
		tp := genTransferBase(r, tier)
		np := numPiecesOf(tp.Layout)
		tp.K.MaxMetadataSize = uint(simrt.Pick(r, []int{0, 64 << 10, 1 << 20}))
		maxMsg := uint32(tp.K.MaxMetadataSize)
		tp.FaultsStop = r.Dur(20*time.Second, 120*time.Second)
		tp.DiskWriteLatMax = simrt.Pick(r, []time.Duration{time.Millisecond, 300 * time.Millisecond, 2 * time.Second})
		hp := honestPeer(r, tp.Layout, "h0", np)
		hp.At = r.Dur(0, tp.FaultsStop/2)
		tp.Peers = append(tp.Peers, hp)
		tp.Magnet = r.Chance(0.35)
		tp.PreSeeded = !tp.Magnet && r.Chance(0.3)
		for i := 0; i < r.Range(1, 4); i++ {
			hs := &refbt.HostileSpec{Kind: simrt.Pick(r, []string{"oversize", "garbage", "valid", "valid", "mixed", "mixed", "truncate", "shortframe", "ghost"}), N: r.Range(1, 200), Max: maxMsg, Nice: r.Chance(0.5)}
			if hs.Kind == "ghost" {
				hs.Nice = false
				if tp.Magnet && r.Chance(0.6) {
					tp.K.EndgameMaxDuplicateDownloads = 1
				}
			}
			b := refbt.Behavior{Fast: r.Chance(0.6), Ext: r.Chance(0.8), HostileSpec: hs, MetaMode: "honest"}
			ps := PeerSpec{Name: fmt.Sprintf("x%d", i), B: b, Mode: simrt.Pick(r, []string{"dial", "dial", "listen"}), At: r.Dur(0, tp.FaultsStop), Redial: r.Dur(200*time.Millisecond, 5*time.Second), Via: "manual"}
			tp.Peers = append(tp.Peers, ps)
		}
		if r.Chance(0.3) {
			t := r.Dur(0, tp.FaultsStop)
			tp.Steps = append(tp.Steps, Step{At: t, Kind: "stop"}, Step{At: min(t+r.Dur(0, 5*time.Second), tp.FaultsStop), Kind: "start"})
		}
		tp.Bound = 2 * time.Hour
		tp.Liveness = true
		tp.LivenessProp = "C08"
		p.Transfer = tp
	}, Run: func(env *Env, p *Plan) { RunTransfer(env, p.Transfer) }})

	// C13: magnet start with lying / garbage / rejecting metadata peers and size games
	Register(&Scenario{Name: "magnet", Gen: func(r *simrt.Rand, tier string, p *Plan) {
		tp := genTransferBase(r, tier)
		// metadata stallers (see below); the replaying kind needs metadata of several blocks
		stallMode := ""
		if r.Chance(0.3) {
			stallMode = simrt.Pick(r, []string{"silent", "silent", "replay", "replay"})
		}
		// bigger metadata (several 16 KiB pieces) sometimes: many small files
		if r.Chance(0.4) || stallMode == "replay" {
			tp.Layout.Single = false
			var files []gen.FileSpec
			nf := r.Range(50, 600)
			if stallMode == "replay" {
				nf = r.Range(350, 800) // two blocks of metadata at least
			}
			for i := 0; i < nf; i++ {
				files = append(files, gen.FileSpec{Path: []string{fmt.Sprintf("dir%03d", i%7), fmt.Sprintf("file-with-a-rather-long-name-%05d.bin", i)}, Length: int64(r.Range(0, 300))})
			}
			tp.Layout.Files = files
			tp.Layout.PieceLen = 16384
		}
		np := numPiecesOf(tp.Layout)
		tp.Magnet = true
		tp.MagnetBase32 = r.Chance(0.3)
		tp.MagnetDN = simrt.Pick(r, []string{"", "plain", "a b&c=d/e?f#g%h+i", "\u00fcml\u00e4ut \u2603", "x\ty"})
		for i := 0; i < r.Range(0, 3); i++ {
			var t []string
			for j := 0; j < r.Range(1, 3); j++ {
				t = append(t, fmt.Sprintf("%s://10.9.%d.%d:6969/ann?x=%d&y=z", simrt.Pick(r, []string{"http", "udp", "https"}), i, j, j))
			}
			tp.MagnetTiers = append(tp.MagnetTiers, t)
		}
		limit := simrt.Pick(r, []int{0, 0, 1 << 20, 20000})
		tp.K.MaxMetadataSize = uint(limit)
		effLimit := limit
		if effLimit == 0 {
			effLimit = 30 << 20
		}
		tp.K.ParallelMetadataDownloads = r.Range(0, 3)
		tp.FaultsStop = r.Dur(10*time.Second, 60*time.Second)
		hp := honestPeer(r, tp.Layout, "h0", np)
		hp.At = r.Dur(0, tp.FaultsStop)
		hp.B.MetaLimit = effLimit
		if r.Chance(0.5) {
			hp.Mode, hp.Via, hp.Redial = "listen", "magnet", 0
		}
		tp.Peers = append(tp.Peers, hp)
		for i := 0; i < r.Range(1, 5); i++ {
			b := refbt.Behavior{Fast: r.Chance(0.5), Ext: true, Announce: "auto", Have: refbt.FullBits(np), ServeDelay: [2]time.Duration{0, r.Dur(0, 30*time.Millisecond)},
				MetaMode: simrt.Pick(r, []string{"honest", "reject", "silent", "garbage", "wrongbytes", "wrongsize", "dup", "unrequested"}), MetaLimit: effLimit}
			switch r.Intn(5) {
			case 0:
				b.MetadataSize = effLimit + 1 + r.Intn(1000) // just over the limit: must never be asked
			case 1:
				b.MetadataSize = 1 << 30
			case 2:
				b.MetadataSize = r.Range(1, 100000) // a lie within the limit
			case 3:
				b.MetadataSize = -1 // omitted
			}
			ps := PeerSpec{Name: fmt.Sprintf("m%d", i), B: b, Mode: simrt.Pick(r, []string{"dial", "listen"}), At: r.Dur(0, tp.FaultsStop/2), Redial: r.Dur(time.Second, 8*time.Second), Via: simrt.Pick(r, []string{"magnet", "manual"})}
			tp.Peers = append(tp.Peers, ps)
		}
		if stallMode != "" {
			// metadata stallers: they advertise the metadata, never answer a request, keep the
			// client choked and stay connected for good; as many as there are download slots,
			// connected before the honest peer (only the snub timer frees their slots)
			tp.K.RequestTimeout = r.Dur(2*time.Second, 10*time.Second)
			mode := stallMode
			for i := 0; i < max(1, tp.K.ParallelMetadataDownloads)+r.Range(0, 1); i++ {
				b := refbt.Behavior{Fast: r.Chance(0.5), Ext: true, Announce: "auto", Have: refbt.FullBits(np), MetaMode: mode, MetaLimit: effLimit, NeverUnchoke: r.Chance(0.7)}
				tp.Peers = append(tp.Peers, PeerSpec{Name: fmt.Sprintf("st%d", i), B: b, Mode: simrt.Pick(r, []string{"dial", "listen"}), At: r.Dur(0, 2*time.Second), Via: simrt.Pick(r, []string{"magnet", "manual"}), Stays: true})
			}
			tp.Peers[0].At = r.Dur(3*time.Second, tp.FaultsStop)
		}
		tp.Bound = 2 * time.Hour
		// completion can be demanded only if the honest peer's metadata is within the limit
		tp.Liveness = true
		tp.LivenessProp = "C13"
		p.Transfer = tp
	}, Run: func(env *Env, p *Plan) { RunTransfer(env, p.Transfer) }})
}
