// Package worlds builds simulated worlds (a system under test plus scripted actors) from
// plans and evaluates the property oracles while they run.
package worlds

import (
	"bytes"
	"crypto/rand"
	"encoding/json"
	"fmt"
	"github.com/gofrs/uuid"
	"net"
	"net/http"
	"os"
	"path/filepath"
	"sort"
	"time"

	"github.com/cenkalti/rain/v2/internal/zzsim/gen"
	"github.com/cenkalti/rain/v2/internal/zzsim/simfs"
	"github.com/cenkalti/rain/v2/internal/zzsim/simnet"
	"github.com/cenkalti/rain/v2/internal/zzsim/simrt"
	"github.com/cenkalti/rain/v2/torrent"
	"go.etcd.io/bbolt"
)

// Knobs are the torrent.Config values a plan may override (zero = keep default).
type Knobs struct {
	Sequential                   bool          `json:"sequential,omitempty"`
	DisableOutgoingEncryption    bool          `json:"disable_out_enc,omitempty"`
	ForceOutgoingEncryption      bool          `json:"force_out_enc,omitempty"`
	ForceIncomingEncryption      bool          `json:"force_in_enc,omitempty"`
	MaxPeerDial                  int           `json:"max_peer_dial,omitempty"`
	MaxPeerAccept                int           `json:"max_peer_accept,omitempty"`
	MaxRequestsIn                int           `json:"max_requests_in,omitempty"`
	MaxRequestsOut               int           `json:"max_requests_out,omitempty"`
	DefaultRequestsOut           int           `json:"default_requests_out,omitempty"`
	EndgameMaxDuplicateDownloads int           `json:"endgame_max_dup,omitempty"`
	RequestTimeout               time.Duration `json:"request_timeout,omitempty"`
	PieceReadTimeout             time.Duration `json:"piece_read_timeout,omitempty"`
	PeerConnectTimeout           time.Duration `json:"peer_connect_timeout,omitempty"`
	PeerHandshakeTimeout         time.Duration `json:"peer_handshake_timeout,omitempty"`
	UnchokedPeers                int           `json:"unchoked_peers,omitempty"`
	OptimisticUnchokedPeers      int           `json:"optimistic_unchoked_peers,omitempty"`
	AllowedFastSet               int           `json:"allowed_fast_set,omitempty"`
	ReadCacheBlockSize           int64         `json:"read_cache_block_size,omitempty"`
	ReadCacheSize                int64         `json:"read_cache_size,omitempty"`
	ReadCacheTTL                 time.Duration `json:"read_cache_ttl,omitempty"`
	ParallelReads                uint          `json:"parallel_reads,omitempty"`
	WriteCacheSize               int64         `json:"write_cache_size,omitempty"`
	ResumeWriteInterval          time.Duration `json:"resume_write_interval,omitempty"`
	MaxPeerAddresses             int           `json:"max_peer_addresses,omitempty"`
	WebseedMaxSources            int           `json:"webseed_max_sources,omitempty"`
	WebseedMaxDownloads          int           `json:"webseed_max_downloads,omitempty"`
	WebseedBodyReadTimeout       time.Duration `json:"webseed_body_read_timeout,omitempty"`
	SpeedLimitDownload           int64         `json:"speed_limit_download,omitempty"`
	SpeedLimitUpload             int64         `json:"speed_limit_upload,omitempty"`
	TrackerStopTimeout           time.Duration `json:"tracker_stop_timeout,omitempty"`
	TrackerMinAnnounceInterval   time.Duration `json:"tracker_min_announce_interval,omitempty"`
	TrackerNumWant               int           `json:"tracker_num_want,omitempty"`
	TrackerHTTPTimeout           time.Duration `json:"tracker_http_timeout,omitempty"`
	PEXDisabled                  bool          `json:"pex_disabled,omitempty"`
	DHTEnabled                   bool          `json:"dht_enabled,omitempty"`
	DataDirNoID                  bool          `json:"datadir_no_id,omitempty"`
	MaxMetadataSize              uint          `json:"max_metadata_size,omitempty"`
	MaxTorrentSize               uint          `json:"max_torrent_size,omitempty"`
	MaxPieces                    uint32        `json:"max_pieces,omitempty"`
	PortBegin, PortEnd           uint16        `json:",omitempty"`
	ParallelMetadataDownloads    int           `json:"parallel_metadata_downloads,omitempty"`
	PrivatePeerIDPrefix          string        `json:"private_peer_id_prefix,omitempty"`
	PrivateClientVersion         string        `json:"private_client_version,omitempty"`
	PrivateUserAgent             string        `json:"private_user_agent,omitempty"`
	BlocklistURL                 string        `json:"blocklist_url,omitempty"`
	BlocklistUpdateInterval      time.Duration `json:"blocklist_update_interval,omitempty"`
	HealthCheckTimeout           time.Duration `json:"health_check_timeout,omitempty"`
	RPCEnabled                   bool          `json:"rpc_enabled,omitempty"`
	BlockOutOff                  bool          `json:"block_out_off,omitempty"`
	BlockInOff                   bool          `json:"block_in_off,omitempty"`
	BlockTrkOff                  bool          `json:"block_trk_off,omitempty"`
}

// Apply overlays the knobs on a config.
func (k Knobs) Apply(c *torrent.Config) {
	setI := func(dst *int, v int) {
		if v != 0 {
			*dst = v
		}
	}
	setD := func(dst *time.Duration, v time.Duration) {
		if v != 0 {
			*dst = v
		}
	}
	c.DisableOutgoingEncryption = k.DisableOutgoingEncryption
	c.ForceOutgoingEncryption = k.ForceOutgoingEncryption
	c.ForceIncomingEncryption = k.ForceIncomingEncryption
	setI(&c.MaxPeerDial, k.MaxPeerDial)
	setI(&c.MaxPeerAccept, k.MaxPeerAccept)
	setI(&c.MaxRequestsIn, k.MaxRequestsIn)
	setI(&c.MaxRequestsOut, k.MaxRequestsOut)
	setI(&c.DefaultRequestsOut, k.DefaultRequestsOut)
	setI(&c.EndgameMaxDuplicateDownloads, k.EndgameMaxDuplicateDownloads)
	setD(&c.RequestTimeout, k.RequestTimeout)
	setD(&c.PieceReadTimeout, k.PieceReadTimeout)
	setD(&c.PeerConnectTimeout, k.PeerConnectTimeout)
	setD(&c.PeerHandshakeTimeout, k.PeerHandshakeTimeout)
	setI(&c.UnchokedPeers, k.UnchokedPeers)
	setI(&c.OptimisticUnchokedPeers, k.OptimisticUnchokedPeers)
	if k.AllowedFastSet != 0 {
		c.AllowedFastSet = k.AllowedFastSet
		if k.AllowedFastSet < 0 {
			c.AllowedFastSet = 0
		}
	}
	if k.ReadCacheBlockSize != 0 {
		c.ReadCacheBlockSize = k.ReadCacheBlockSize
	}
	if k.ReadCacheSize != 0 {
		c.ReadCacheSize = k.ReadCacheSize
	}
	setD(&c.ReadCacheTTL, k.ReadCacheTTL)
	if k.ParallelReads != 0 {
		c.ParallelReads = k.ParallelReads
	}
	if k.WriteCacheSize != 0 {
		c.WriteCacheSize = k.WriteCacheSize
	}
	setD(&c.ResumeWriteInterval, k.ResumeWriteInterval)
	setI(&c.MaxPeerAddresses, k.MaxPeerAddresses)
	setI(&c.WebseedMaxSources, k.WebseedMaxSources)
	setI(&c.WebseedMaxDownloads, k.WebseedMaxDownloads)
	setD(&c.WebseedResponseBodyReadTimeout, k.WebseedBodyReadTimeout)
	if k.SpeedLimitDownload != 0 {
		c.SpeedLimitDownload = k.SpeedLimitDownload
	}
	if k.SpeedLimitUpload != 0 {
		c.SpeedLimitUpload = k.SpeedLimitUpload
	}
	setD(&c.TrackerStopTimeout, k.TrackerStopTimeout)
	setD(&c.TrackerMinAnnounceInterval, k.TrackerMinAnnounceInterval)
	setI(&c.TrackerNumWant, k.TrackerNumWant)
	setD(&c.TrackerHTTPTimeout, k.TrackerHTTPTimeout)
	c.PEXEnabled = !k.PEXDisabled
	c.DHTEnabled = k.DHTEnabled
	c.DataDirIncludesTorrentID = !k.DataDirNoID
	if k.MaxMetadataSize != 0 {
		c.MaxMetadataSize = k.MaxMetadataSize
	}
	if k.MaxTorrentSize != 0 {
		c.MaxTorrentSize = k.MaxTorrentSize
	}
	if k.MaxPieces != 0 {
		c.MaxPieces = k.MaxPieces
	}
	if k.PortBegin != 0 {
		c.PortBegin, c.PortEnd = k.PortBegin, k.PortEnd
	}
	setI(&c.ParallelMetadataDownloads, k.ParallelMetadataDownloads)
	if k.PrivatePeerIDPrefix != "" {
		c.PrivatePeerIDPrefix = k.PrivatePeerIDPrefix
	}
	if k.PrivateClientVersion != "" {
		c.PrivateExtensionHandshakeClientVersion = k.PrivateClientVersion
	}
	if k.PrivateUserAgent != "" {
		c.TrackerHTTPPrivateUserAgent = k.PrivateUserAgent
	}
	if k.BlocklistURL != "" {
		c.BlocklistURL = k.BlocklistURL
	}
	setD(&c.BlocklistUpdateInterval, k.BlocklistUpdateInterval)
	setD(&c.HealthCheckTimeout, k.HealthCheckTimeout)
	c.RPCEnabled = k.RPCEnabled
	c.BlocklistEnabledForOutgoingConnections = !k.BlockOutOff
	c.BlocklistEnabledForIncomingConnections = !k.BlockInOff
	c.BlocklistEnabledForTrackers = !k.BlockTrkOff
}

// ---------------------------------------------------------------------------

// Env is the per-process environment of a run.
type Env struct {
	Seed    uint64
	TmpDir  string // real directory (under /dev/shm) for bbolt files
	R       *simrt.Rand
	Net     *simnet.Net
	nextIP  int
	nodes   []*Node
	Budget  time.Duration
	Stats   map[string]any // scenario-specific facts for the result file
	NonTriv bool           // did the scenario's non-triviality predicate hold
	Sig     []string       // event-order signature elements
}

func NewEnv(seed uint64, tmp string) *Env {
	e := &Env{Seed: seed, TmpDir: tmp, R: simrt.NewRand(seed), Stats: map[string]any{}}
	e.Net = simnet.New(seed)
	simrt.SeedMaps(seed)
	rand.Reader = simrt.NewRand(seed ^ 0x63727970746f)
	// gofrs/uuid captured crypto/rand.Reader and the host's MAC address at package init
	uuid.DefaultGenerator = uuid.NewGenWithOptions(uuid.WithRandomReader(simrt.NewRand(seed^0x75756964)),
		uuid.WithHWAddrFunc(func() (net.HardwareAddr, error) { return net.HardwareAddr{2, 0, 0, 0, 0, 1}, nil }))
	http.DefaultTransport = &http.Transport{DialContext: simnet.DialContextFunc, DisableKeepAlives: true}
	return e
}

func (e *Env) NewHost(name, role string) *simrt.Host {
	e.nextIP++
	ip := fmt.Sprintf("10.%d.%d.%d", 1+e.nextIP/60000, (e.nextIP/250)%250, 1+e.nextIP%250)
	if name == "sut" {
		ip = simnet.SUTAddr
	}
	return &simrt.Host{Name: name, IP: ip, Role: role}
}

// SigAdd appends an element to the event-order signature of the run.
func (e *Env) SigAdd(format string, a ...any) {
	if len(e.Sig) < 400 {
		e.Sig = append(e.Sig, fmt.Sprintf(format, a...))
	}
}

// Node is a real rain Session on a simulated host.
type Node struct {
	Env    *Env
	Host   *simrt.Host
	FS     *simfs.FS
	Cfg    torrent.Config
	Sess   *torrent.Session
	DBPath string
	Closed bool
}

// In runs f with the calling goroutine bound to the node's host (goroutines started by rain
// from inside f inherit the binding).
func (n *Node) In(f func()) {
	prev := simrt.Cur()
	simrt.Enter(n.Host)
	defer simrt.Enter(prev)
	f()
}

// BaseConfig is the configuration every simulated session starts from.
func BaseConfig() torrent.Config {
	c := torrent.DefaultConfig
	c.DataDir = "/data"
	c.DHTEnabled = false
	c.RPCEnabled = false
	c.MaxOpenFiles = 0
	c.Host = "0.0.0.0"
	c.PortBegin, c.PortEnd = 20000, 20100
	c.ResumeOnStartup = true
	return c
}

// StartNode boots a session on host with the given disk (nil = fresh) and DB file
// ("" = fresh).
func (e *Env) StartNode(host *simrt.Host, fs *simfs.FS, dbPath string, k Knobs) (*Node, error) {
	if fs == nil {
		fs = simfs.New(host.Name, e.R.Uint64())
	}
	host.FS = fs
	n := &Node{Env: e, Host: host, FS: fs}
	n.Cfg = BaseConfig()
	k.Apply(&n.Cfg)
	if dbPath == "" {
		dbPath = filepath.Join(e.TmpDir, fmt.Sprintf("%s-%d.db", host.Name, len(e.nodes)))
	}
	n.DBPath = dbPath
	n.Cfg.Database = dbPath
	var err error
	n.In(func() { n.Sess, err = torrent.NewSession(n.Cfg) })
	if err != nil {
		return nil, err
	}
	e.nodes = append(e.nodes, n)
	simrt.Logf("node %s started ip=%s", host.Name, host.IP)
	return n, nil
}

func (n *Node) Close() error {
	if n.Closed {
		return nil
	}
	n.Closed = true
	var err error
	n.In(func() { err = n.Sess.Close() })
	simrt.Logf("node %s closed err=%v", n.Host.Name, err)
	return err
}

// CopyDB copies the node's resume DB file (atomic w.r.t. simulated execution: a bbolt commit
// contains no scheduling point) and returns the path of the copy.
func (n *Node) CopyDB(tag string) string {
	b, err := os.ReadFile(n.DBPath)
	if err != nil {
		panic("harness: cannot read db: " + err.Error())
	}
	p := filepath.Join(n.Env.TmpDir, fmt.Sprintf("%s-%s.db", n.Host.Name, tag))
	if err := os.WriteFile(p, b, 0o600); err != nil {
		panic("harness: cannot copy db: " + err.Error())
	}
	return p
}

// ResumeRec is what the resume DB holds for one torrent (raw values).
type ResumeRec map[string][]byte

// ReadResume opens a *copy* of a resume DB read-only and returns all records.
func ReadResume(path string) (map[string]ResumeRec, error) {
	db, err := bbolt.Open(path, 0o600, &bbolt.Options{ReadOnly: true, Timeout: time.Second})
	if err != nil {
		return nil, err
	}
	defer db.Close()
	out := map[string]ResumeRec{}
	err = db.View(func(tx *bbolt.Tx) error {
		b := tx.Bucket([]byte("torrents"))
		if b == nil {
			return nil
		}
		return b.ForEach(func(k, v []byte) error {
			sub := b.Bucket(k)
			if sub == nil {
				return nil
			}
			rec := ResumeRec{}
			_ = sub.ForEach(func(k2, v2 []byte) error {
				rec[string(k2)] = append([]byte(nil), v2...)
				return nil
			})
			out[string(k)] = rec
			return nil
		})
	})
	return out, err
}

// TorrentDir returns the data directory of a torrent on a node.
func (n *Node) TorrentDir(id string) string {
	if n.Cfg.DataDirIncludesTorrentID {
		return n.Cfg.DataDir + "/" + id
	}
	return n.Cfg.DataDir
}

// DiskState compares a torrent's files on a disk with the ground truth.
// It returns, per piece, whether all its non-padding bytes are present and correct.
func DiskState(fs *simfs.FS, dir string, t *gen.Torrent, durable bool) []bool {
	ok := make([]bool, t.NumPieces)
	// per-file content
	content := make([][]byte, len(t.Files))
	for i, f := range t.Files {
		if f.Pad {
			continue
		}
		p := dir + "/" + t.FileRel(i)
		var b []byte
		var found bool
		if durable {
			b, found = fs.Durable(p)
		} else {
			b, found = fs.Get(p)
		}
		if found {
			content[i] = b
		}
	}
	for pi := 0; pi < t.NumPieces; pi++ {
		off := int64(pi) * int64(t.PieceLen)
		n := int64(t.PieceSize(pi))
		good := true
		for fi, f := range t.Files {
			if f.Pad || f.Length == 0 {
				continue
			}
			s, e := t.FileOff[fi], t.FileOff[fi]+f.Length
			lo, hi := max(s, off), min(e, off+n)
			if lo >= hi {
				continue
			}
			c := content[fi]
			if c == nil || int64(len(c)) < hi-s {
				good = false
				break
			}
			if !bytes.Equal(c[lo-s:hi-s], t.Data[lo:hi]) {
				good = false
				break
			}
		}
		ok[pi] = good
	}
	return ok
}

// Result is what a run writes for the runner.
type Result struct {
	Scenario   string            `json:"scenario"`
	Seed       uint64            `json:"seed"`
	PlanHash   string            `json:"plan_hash"`
	TraceHash  string            `json:"trace_hash"`
	SimTime    float64           `json:"sim_seconds"`
	Events     uint64            `json:"events"`
	SchedDraws uint64            `json:"sched_draws"`
	Violations []simrt.Violation `json:"violations"`
	Counters   map[string]int64  `json:"counters"`
	Stats      map[string]any    `json:"stats"`
	NonTrivial bool              `json:"nontrivial"`
	Signature  string            `json:"signature"`
	HarnessErr string            `json:"harness_error,omitempty"`
	LogTail    []string          `json:"log_tail,omitempty"`
	Sample     json.RawMessage   `json:"sample,omitempty"`
}

func sortedKeys[V any](m map[string]V) []string {
	ks := make([]string, 0, len(m))
	for k := range m {
		ks = append(ks, k)
	}
	sort.Strings(ks)
	return ks
}
