package worlds

import (
	"fmt"
	"net"
	"net/http"
	"strconv"
	"strings"
	"sync"
	"time"

	"github.com/cenkalti/rain/v2/internal/zzsim/gen"
	"github.com/cenkalti/rain/v2/internal/zzsim/refbt"
	"github.com/cenkalti/rain/v2/internal/zzsim/simnet"
	"github.com/cenkalti/rain/v2/internal/zzsim/simrt"
)

// PeerSpec describes one scripted peer in a plan.
type PeerSpec struct {
	Name string         `json:"name"`
	B    refbt.Behavior `json:"b"`
	// Mode "listen": the peer listens and the SUT is told its address at time At.
	// Mode "dial": the peer dials the SUT's listening port at time At.
	Mode string        `json:"mode"`
	At   time.Duration `json:"at"`
	// Redial > 0: whenever the peer is not connected it dials the SUT again after this pause.
	Redial time.Duration `json:"redial,omitempty"`
	// Honest marks a full, well-behaved source (liveness oracles depend on one existing).
	Honest bool `json:"honest,omitempty"`
	// ResetAfterBytes > 0: the connection is reset after the peer has written this many bytes.
	ResetAfterBytes int64 `json:"reset_after_bytes,omitempty"`
	// StallAt/StallFor: stall delivery towards the SUT.
	StallAt  time.Duration `json:"stall_at,omitempty"`
	StallFor time.Duration `json:"stall_for,omitempty"`
	// Stays: not shut down when faults stop (a peer that is merely silent, choking or slow is
	// part of the steady state the download must cope with).
	Stays bool `json:"stays,omitempty"`
	// Via: how the SUT learns the address in listen mode: "manual" (AddPeer), "tracker", "pex", "none".
	Via string `json:"via,omitempty"`
}

// PeerActor runs a scripted peer (possibly over several connections in a row).
type PeerActor struct {
	Spec  PeerSpec
	Host  *simrt.Host
	T     *gen.Torrent
	Hooks refbt.Hooks
	Lim   refbt.Limits
	Seed  uint64

	mu       sync.Mutex
	Conns    []*refbt.Peer // one per connection, in order
	ln       *simnet.TCPListener
	Addr     string
	stop     chan struct{}
	SutAddr  func() string // where to dial the SUT ("" = not listening now)
	OnNew    func(p *refbt.Peer)
	Accepted int
	Dialed   int
	NoChecks bool
	// NoWireChecks: also silence the wire-format checks (metainfo world: the peer's torrent
	// description is deliberately not the one the SUT adopted)
	NoWireChecks bool
}

func (a *PeerActor) newPeer() *refbt.Peer {
	a.mu.Lock()
	n := len(a.Conns)
	a.mu.Unlock()
	p := refbt.NewPeer(fmt.Sprintf("%s#%d", a.Spec.Name, n), a.Host, a.T, a.Spec.B, a.Seed+uint64(n)*7919)
	// one identity per actor: the same peer id over all its connections
	copy(p.ID[:], fmt.Sprintf("-RF0001-%012d", a.Seed%1000000000000))
	p.H = a.Hooks
	p.Lim = a.Lim
	p.NoChecks = a.NoChecks
	p.NoWireChecks = a.NoWireChecks
	a.mu.Lock()
	a.Conns = append(a.Conns, p)
	a.mu.Unlock()
	if a.OnNew != nil {
		a.OnNew(p)
	}
	return p
}

// Current returns the peer object of the latest connection (nil if none).
func (a *PeerActor) Current() *refbt.Peer {
	a.mu.Lock()
	defer a.mu.Unlock()
	if len(a.Conns) == 0 {
		return nil
	}
	return a.Conns[len(a.Conns)-1]
}

// Connected reports whether the latest connection is still up.
func (a *PeerActor) Connected() bool {
	p := a.Current()
	return p != nil && !p.IsClosed() && p.Conn() != nil
}

// Start launches the actor's goroutines.
func (a *PeerActor) Start() {
	a.stop = make(chan struct{})
	simrt.Go(a.Host, func() {
		switch a.Spec.Mode {
		case "listen":
			a.listen()
		case "dial":
			a.dialLoop()
		}
	})
}

func (a *PeerActor) Stop() {
	select {
	case <-a.stop:
	default:
		close(a.stop)
	}
	if a.ln != nil {
		a.ln.Close()
	}
	if p := a.Current(); p != nil {
		p.Close()
	}
}

// SetListener installs an already opened listener (listen mode).
func (a *PeerActor) SetListener(ln *simnet.TCPListener) {
	a.ln = ln
	a.Addr = ln.Addr().String()
}

// Listen opens the listener synchronously (so its address is known) — call before Start.
func (a *PeerActor) Listen() {
	prev := simrt.Cur()
	simrt.Enter(a.Host)
	ln, err := simnet.ListenTCP("tcp4", &net.TCPAddr{Port: 6881})
	simrt.Enter(prev)
	if err != nil {
		panic("harness: peer listen: " + err.Error())
	}
	a.ln = ln
	a.Addr = ln.Addr().String()
}

func (a *PeerActor) applyConnFaults(c net.Conn) {
	pc, ok := c.(interface {
		SimPair() (*simnet.Pair, int)
	})
	if !ok {
		return
	}
	pair, side := pc.SimPair()
	if a.Spec.ResetAfterBytes > 0 {
		pair.ResetAfter(side, a.Spec.ResetAfterBytes)
	}
	if a.Spec.StallFor > 0 {
		d := a.Spec.StallAt - simrt.Now()
		if d < 0 {
			d = 0
		}
		time.AfterFunc(d, func() { pair.Stall(side, a.Spec.StallFor) })
	}
}

func (a *PeerActor) listen() {
	for {
		c, err := a.ln.Accept()
		if err != nil {
			return
		}
		a.mu.Lock()
		a.Accepted++
		a.mu.Unlock()
		a.applyConnFaults(c)
		p := a.newPeer()
		select {
		case <-a.stop:
			c.Close()
			return
		default:
		}
		go func() {
			simrt.Enter(a.Host)
			p.Serve(c)
		}()
	}
}

func (a *PeerActor) dialLoop() {
	if d := a.Spec.At - simrt.Now(); d > 0 {
		select {
		case <-time.After(d):
		case <-a.stop:
			return
		}
	}
	for {
		addr := ""
		if a.SutAddr != nil {
			addr = a.SutAddr()
		}
		if addr != "" {
			d := simnet.Dialer{Timeout: 10 * time.Second}
			c, err := d.Dial("tcp", addr)
			if err == nil {
				a.mu.Lock()
				a.Dialed++
				a.mu.Unlock()
				a.applyConnFaults(c)
				p := a.newPeer()
				p.Incoming = false
				select {
				case <-a.stop: // stopped while the dial was in flight
					c.Close()
					return
				default:
				}
				p.Run(c)
			}
		}
		if a.Spec.Redial <= 0 {
			return
		}
		select {
		case <-time.After(a.Spec.Redial):
		case <-a.stop:
			return
		}
	}
}

// ---------------------------------------------------------------------------
// Web seed

type WebseedSpec struct {
	Name string `json:"name"`
	// Mode: "honest", "404", "500", "norange" (200 with the whole file), "short" (body cut),
	// "stall" (stops sending mid-body), "corrupt" (flips a byte per response), "reset".
	Mode   string  `json:"mode"`
	FaultP float64 `json:"fault_p,omitempty"` // probability that a response is faulty (1 = always)
	Honest bool    `json:"honest,omitempty"`
	// FaultUntil: faults only before this fake time (0 = forever).
	FaultUntil time.Duration `json:"fault_until,omitempty"`
	// DelayMax: every response is held back for up to this long (a slow but honest server).
	DelayMax time.Duration `json:"delay_max,omitempty"`
}

type RangeReq struct {
	At         time.Duration
	Path       string
	Begin, End int64 // inclusive range
	File       int
}

type WebseedActor struct {
	Spec WebseedSpec
	Host *simrt.Host
	T    *gen.Torrent
	URL  string
	rng  *simrt.Rand
	mu   sync.Mutex
	Reqs []RangeReq
	// Active: requests being answered right now; Contacted: at least one request arrived.
	Active    int
	Contacted bool
	ln        net.Listener
	srv       *http.Server
}

func (w *WebseedActor) Start(seed uint64) {
	w.rng = simrt.NewRand(seed)
	prev := simrt.Cur()
	simrt.Enter(w.Host)
	ln, err := simnet.Listen("tcp", "0.0.0.0:8080")
	simrt.Enter(prev)
	if err != nil {
		panic("harness: webseed listen: " + err.Error())
	}
	w.ln = ln
	w.URL = "http://" + ln.Addr().String() + "/ws/"
	w.srv = &http.Server{Handler: http.HandlerFunc(func(rw http.ResponseWriter, r *http.Request) {
		w.mu.Lock()
		w.Active++
		w.Contacted = true
		w.mu.Unlock()
		defer func() {
			w.mu.Lock()
			w.Active--
			w.mu.Unlock()
		}()
		w.handle(rw, r)
	})}
	simrt.Go(w.Host, func() { w.srv.Serve(ln) })
}

func (w *WebseedActor) Stop() {
	if w.srv != nil {
		w.srv.Close()
	}
}

func (w *WebseedActor) fileByPath(p string) int {
	rel := strings.TrimPrefix(p, "/ws/")
	for i, f := range w.T.Files {
		if f.Pad {
			continue
		}
		if w.T.FileRel(i) == rel {
			return i
		}
	}
	return -1
}

func (w *WebseedActor) handle(rw http.ResponseWriter, r *http.Request) {
	fi := w.fileByPath(r.URL.Path)
	w.mu.Lock()
	faulty := w.Spec.Mode != "honest" && w.Spec.Mode != "" && (w.Spec.FaultP <= 0 || w.rng.Chance(w.Spec.FaultP)) &&
		(w.Spec.FaultUntil == 0 || simrt.Now() < w.Spec.FaultUntil)
	w.mu.Unlock()
	if fi < 0 {
		// a request for a padding file or an unknown path
		for i, f := range w.T.Files {
			if f.Pad && "/ws/"+w.T.FileRel(i) == r.URL.Path {
				simrt.Violate("C02", "webseed.padding_requested", "web seed asked for padding file %s", r.URL.Path)
			}
		}
		http.NotFound(rw, r)
		return
	}
	data := w.T.FileData(fi)
	begin, end := int64(0), int64(len(data))-1
	rg := r.Header.Get("Range")
	if rg != "" {
		var b, e int64
		if _, err := fmt.Sscanf(rg, "bytes=%d-%d", &b, &e); err != nil || b < 0 || e < b || e >= int64(len(data)) {
			simrt.Violate("C02", "webseed.range", "web seed Range %q outside file %s of %d bytes", rg, r.URL.Path, len(data))
			http.Error(rw, "bad range", http.StatusRequestedRangeNotSatisfiable)
			return
		}
		begin, end = b, e
	}
	w.mu.Lock()
	w.Reqs = append(w.Reqs, RangeReq{At: simrt.Now(), Path: r.URL.Path, Begin: begin, End: end, File: fi})
	w.mu.Unlock()
	simrt.Logf("webseed %s: GET %s %d-%d faulty=%v", w.Spec.Name, r.URL.Path, begin, end, faulty)
	if w.Spec.DelayMax > 0 {
		w.mu.Lock()
		d := w.rng.Dur(0, w.Spec.DelayMax)
		w.mu.Unlock()
		select {
		case <-time.After(d):
		case <-r.Context().Done():
			return
		}
	}
	body := append([]byte(nil), data[begin:end+1]...)
	if faulty {
		simrt.Count("fault.webseed."+w.Spec.Mode, 1)
		switch w.Spec.Mode {
		case "404":
			http.NotFound(rw, r)
			return
		case "500":
			http.Error(rw, "boom", 500)
			return
		case "norange":
			rw.Header().Set("Content-Length", strconv.Itoa(len(data)))
			rw.WriteHeader(200)
			rw.Write(data)
			return
		case "corrupt":
			if len(body) > 0 {
				w.mu.Lock()
				body[w.rng.Intn(len(body))] ^= 0x5a
				w.mu.Unlock()
			}
		case "short":
			rw.Header().Set("Content-Range", fmt.Sprintf("bytes %d-%d/%d", begin, end, len(data)))
			rw.Header().Set("Content-Length", strconv.Itoa(len(body)))
			rw.WriteHeader(206)
			rw.Write(body[:len(body)/2])
			if hj, ok := rw.(http.Hijacker); ok {
				if c, _, err := hj.Hijack(); err == nil {
					c.Close()
				}
			}
			return
		case "stall":
			rw.Header().Set("Content-Range", fmt.Sprintf("bytes %d-%d/%d", begin, end, len(data)))
			rw.Header().Set("Content-Length", strconv.Itoa(len(body)))
			rw.WriteHeader(206)
			rw.Write(body[:len(body)/2])
			if f, ok := rw.(http.Flusher); ok {
				f.Flush()
			}
			select {
			case <-r.Context().Done():
			case <-time.After(10 * time.Minute):
			}
			return
		case "reset":
			if hj, ok := rw.(http.Hijacker); ok {
				if c, _, err := hj.Hijack(); err == nil {
					if pc, ok := c.(interface {
						SimPair() (*simnet.Pair, int)
					}); ok {
						p, _ := pc.SimPair()
						p.Reset("webseed reset")
					}
					c.Close()
				}
			}
			return
		}
	}
	rw.Header().Set("Content-Range", fmt.Sprintf("bytes %d-%d/%d", begin, end, len(data)))
	rw.Header().Set("Content-Length", strconv.Itoa(len(body)))
	if rg != "" {
		rw.WriteHeader(206)
	} else {
		rw.WriteHeader(200)
	}
	// write in a few chunks so that the reader sees partial bodies
	for len(body) > 0 {
		n := len(body)
		if n > 8192 {
			w.mu.Lock()
			n = 1 + w.rng.Intn(32768)
			w.mu.Unlock()
			if n > len(body) {
				n = len(body)
			}
		}
		if _, err := rw.Write(body[:n]); err != nil {
			return
		}
		body = body[n:]
	}
}
