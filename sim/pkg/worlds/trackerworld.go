package worlds

import (
	"bytes"
	"fmt"
	"os"
	"sort"
	"strings"
	"sync"
	"time"

	"github.com/cenkalti/rain/v2/internal/zzsim/gen"
	"github.com/cenkalti/rain/v2/internal/zzsim/refbt"
	"github.com/cenkalti/rain/v2/internal/zzsim/simfs"
	"github.com/cenkalti/rain/v2/internal/zzsim/simnet"
	"github.com/cenkalti/rain/v2/internal/zzsim/simrt"
	"github.com/cenkalti/rain/v2/torrent"
)

type TrackerSpec struct {
	Name   string        `json:"name"`
	UDP    bool          `json:"udp,omitempty"`
	Script []Reply       `json:"script"`
	Delay  time.Duration `json:"delay,omitempty"`
	// DownFrom/DownTo: the tracker host is unreachable (dial refused / UDP dropped) in this window.
	DownFrom time.Duration `json:"down_from,omitempty"`
	DownTo   time.Duration `json:"down_to,omitempty"`
}

type TCmd struct {
	Gap  time.Duration `json:"gap"`
	Tor  int           `json:"tor"`
	Kind string        `json:"kind"` // start stop announce
}

// TrackerPlan: torrents announcing to scripted HTTP/UDP trackers organised in tiers.
type TrackerPlan struct {
	Layout   gen.Layout      `json:"layout"`
	K        Knobs           `json:"knobs"`
	Net      simnet.Config   `json:"net"`
	Tiers    [][]TrackerSpec `json:"tiers"`
	Torrents int             `json:"torrents"`
	Cmds     []TCmd          `json:"cmds"`
	WithSeed bool            `json:"with_seed"` // torrent 0 can complete
	// Leech: a peer keeps downloading torrent 0 from the client (upload counters move; a stop
	// can land while a block is being written to it)
	Leech bool          `json:"leech,omitempty"`
	Dur   time.Duration `json:"dur"`
}

type torState struct {
	tor      *torrent.Torrent
	T        *gen.Torrent
	running  bool
	runStart time.Duration
	runID    int
	peerID   *[20]byte // as seen in a peer handshake
	complete bool
	// upload ground truth: payload bytes of blocks scripted peers received, and the client's
	// own counters once a run has fully stopped (run id -> Stats().Bytes.Uploaded)
	received      int64
	finalUploaded map[int]int64
	stoppedAnn    []stoppedAnn
}

type stoppedAnn struct {
	tracker  string
	runID    int
	uploaded int64
}

func RunTrackers(env *Env, plan *TrackerPlan) {
	env.Net.Cfg = plan.Net
	var mu sync.Mutex
	// trackers
	var trackers []*TrackerActor
	byURL := map[string]*TrackerActor{}
	tierOf := map[string]int{}
	var tiersURLs [][]string
	specOf := map[string]TrackerSpec{}
	for ti, tier := range plan.Tiers {
		var urls []string
		for _, ts := range tier {
			ta := &TrackerActor{Host: env.NewHost(ts.Name, "tracker"), Name: ts.Name, UDP: ts.UDP, Delay: ts.Delay, Script: ts.Script}
			ta.Peers = []string{"10.250.0.1:7001"} // a distinctive, unreachable address
			ta.LatSlack = 4 * (plan.Net.LatMax + plan.Net.Jitter)
			ta.ClientTimeout = 10 * time.Second
			if plan.K.TrackerHTTPTimeout > 0 {
				ta.ClientTimeout = plan.K.TrackerHTTPTimeout
			}
			ta.Start(env.R.Uint64())
			trackers = append(trackers, ta)
			byURL[ta.URL] = ta
			tierOf[ts.Name] = ti
			specOf[ts.Name] = ts
			urls = append(urls, ta.URL)
		}
		tiersURLs = append(tiersURLs, urls)
	}
	// reachability windows
	env.Net.OnDial = func(from *simrt.Host, to *simnetTCPAddr) simnet.DialVerdict {
		for _, ta := range trackers {
			sp := specOf[ta.Name]
			if sp.DownTo > 0 && to.IP.String() == ta.Host.IP && simrt.Now() >= sp.DownFrom && simrt.Now() < sp.DownTo {
				simrt.Count("fault.tracker.down_dial", 1)
				return simnet.DialRefuse
			}
		}
		return simnet.DialOK
	}
	env.Net.OnUDP = func(from, to *simnetUDPAddr, b []byte) bool {
		for _, ta := range trackers {
			sp := specOf[ta.Name]
			if sp.DownTo > 0 && (to.IP.String() == ta.Host.IP || from.IP.String() == ta.Host.IP) && simrt.Now() >= sp.DownFrom && simrt.Now() < sp.DownTo {
				simrt.Count("fault.tracker.down_udp", 1)
				return false
			}
		}
		return true
	}
	sutHost := env.NewHost("sut", "sut")
	fs := simfs.New("sut", env.R.Uint64())
	sut, err := env.StartNode(sutHost, fs, "", plan.K)
	if err == nil {
		// oracle parameters from the configuration the SUT really runs with
		for _, ta := range trackers {
			ta.mu.Lock()
			ta.ClientTimeout = sut.Cfg.TrackerHTTPTimeout
			ta.RespLimit = int64(sut.Cfg.TrackerHTTPMaxResponseSize)
			ta.mu.Unlock()
		}
	}
	if err != nil {
		panic("harness: cannot start SUT: " + err.Error())
	}
	nt := plan.Torrents
	if nt < 1 {
		nt = 1
	}
	tors := make([]*torState, nt)
	for i := 0; i < nt; i++ {
		l := plan.Layout
		l.Name = fmt.Sprintf("%s-%d", l.Name, i)
		l.Trackers = tiersURLs
		T := gen.Build(l)
		ts := &torState{T: T}
		sut.In(func() {
			ts.tor, err = sut.Sess.AddTorrent(bytes.NewReader(T.MetaBytes), &torrent.AddTorrentOptions{ID: fmt.Sprintf("t%d", i), Stopped: true})
		})
		if err != nil {
			simrt.Violate("C10", "add.rejected", "valid torrent rejected: %v", err)
			return
		}
		tors[i] = ts
	}
	torByHash := func(h [20]byte) *torState {
		for _, ts := range tors {
			if ts.T.InfoHash == h {
				return ts
			}
		}
		return nil
	}
	// a seed for torrent 0, which also tells us the handshake peer id
	var seed *PeerActor
	if plan.WithSeed {
		ts := tors[0]
		seed = &PeerActor{Spec: PeerSpec{Name: "seed", B: refbt.Honest(ts.T, true), Mode: "dial", Redial: 5 * time.Second, Honest: true}, Host: env.NewHost("seed", "peer"), T: ts.T, Seed: env.R.Uint64()}
		seed.SutAddr = func() string {
			addr := fmt.Sprintf("%s:%d", sutHost.IP, ts.tor.Port())
			if env.Net.Listening(addr) {
				return addr
			}
			return ""
		}
		seed.OnNew = func(p *refbt.Peer) {}
		seed.Hooks = refbt.Hooks{OnMsg: func(p *refbt.Peer, m refbt.Msg) {
			mu.Lock()
			if ts.peerID == nil {
				id := p.HS.PeerID
				ts.peerID = &id
			}
			mu.Unlock()
		}}
		seed.Start()
		if plan.Leech {
			lb := refbt.Behavior{Fast: env.R.Chance(0.5), Ext: true, Have: refbt.NewBits(ts.T.NumPieces), Announce: "auto", Leech: true, LeechInterested: true, LeechPipeline: 4, MetaMode: "honest"}
			leech := &PeerActor{Spec: PeerSpec{Name: "leech", B: lb, Mode: "dial", Redial: 3 * time.Second}, Host: env.NewHost("leech", "peer"), T: ts.T, Seed: env.R.Uint64(), NoChecks: true}
			leech.SutAddr = seed.SutAddr
			leech.Hooks = refbt.Hooks{OnPiece: func(p *refbt.Peer, m refbt.Msg, ok bool) {
				mu.Lock()
				ts.received += int64(len(m.Data))
				mu.Unlock()
				simrt.Count("probe.tracker.block_uploaded", 1)
			}}
			leech.Start()
		}
		go func() {
			<-ts.tor.NotifyComplete()
			mu.Lock()
			ts.complete = true
			mu.Unlock()
			simrt.Logf("torrent 0 complete")
		}()
	}

	// --- online per-announce checks -----------------------------------------------
	type trk struct {
		last       *Announce // last announce seen by this tracker for a torrent
		lastOKAt   time.Duration
		lastOK     *Announce
		sawStarted bool
		completedN int
		acceptedOK bool
		runID      int
	}
	state := map[string]*trk{} // tracker name + torrent id
	seenTx := map[string]bool{}
	cfgMin := sut.Cfg.TrackerMinAnnounceInterval
	var tierSeq = map[string][]string{} // "torrent/tier" -> sequence of "name:ok|fail"
	var tierAt = map[string][]time.Duration{}
	var tierRep = map[string][]time.Duration{}
	onAnn := func(ta *TrackerActor) func(a *Announce) {
		return func(a *Announce) {
			mu.Lock()
			defer mu.Unlock()
			ts := torByHash(a.InfoHash)
			if ts == nil {
				simrt.Violate("C15", "announce.infohash", "tracker %s got an announce for unknown info-hash %x", ta.Name, a.InfoHash)
				return
			}
			ti := -1
			for i := range tors {
				if tors[i] == ts {
					ti = i
				}
			}
			if want := ts.tor.Port(); a.Port != want {
				simrt.Violate("C15", "announce.port", "tracker %s: announce carries port %d, the torrent listens on %d", ta.Name, a.Port, want)
			}
			if ts.peerID != nil && a.PeerID != *ts.peerID {
				simrt.Violate("C15", "announce.peer_id", "tracker %s (%s): announce carries peer id %q, peers see %q in the handshake", ta.Name, a.Proto, a.PeerID[:], ts.peerID[:])
			}
			if !strings.HasPrefix(string(a.PeerID[:]), "-RN") {
				simrt.Violate("C15", "announce.peer_id", "tracker %s: peer id %q lacks the client prefix", ta.Name, a.PeerID[:])
			}
			if a.Left < 0 || (a.Left > ts.T.Total && a.Left != 1<<32-1) || a.Downloaded < 0 || a.Uploaded < 0 {
				simrt.Violate("C15", "announce.counters", "tracker %s: left=%d downloaded=%d uploaded=%d for a torrent of %d bytes", ta.Name, a.Left, a.Downloaded, a.Uploaded, ts.T.Total)
			}
			key := fmt.Sprintf("%s/t%d", ta.Name, ti)
			if a.Proto == "udp" {
				// BEP 15 clients retransmit a request until it is answered: the same
				// transaction id again is the same announce, not a new one
				tk := fmt.Sprintf("%s/%d", key, a.TxID)
				if seenTx[tk] {
					simrt.Count("probe.tracker.udp_retransmit", 1)
					return
				}
				seenTx[tk] = true
			}
			st := state[key]
			if st == nil || st.runID != ts.runID {
				st = &trk{runID: ts.runID}
				state[key] = st
			}
			// peer id must be the same across all announces of a torrent
			if st.last != nil && st.last.PeerID != a.PeerID {
				simrt.Violate("C15", "announce.peer_id_changes", "tracker %s: peer id changed between announces of one torrent: %q then %q", ta.Name, st.last.PeerID[:], a.PeerID[:])
			}
			switch a.Event {
			case "started":
				st.sawStarted = true
			case "completed":
				st.completedN++
				if st.completedN > 1 {
					simrt.Violate("C15", "event.completed_twice", "tracker %s: 'completed' announced %d times in one run", ta.Name, st.completedN)
				}
				if a.Left != 0 {
					simrt.Violate("C15", "event.completed_not_complete", "tracker %s: 'completed' announced with left=%d", ta.Name, a.Left)
				}
				if st.last == nil {
					// first announce of this run to this tracker is 'completed'
					simrt.Violate("C15", "event.first_not_started", "tracker %s: first announce of the run has event %q", ta.Name, a.Event)
				}
			case "stopped":
				if st.last == nil {
					// a late 'stopped' of the previous run arriving after the next Start()
					simrt.Count("probe.tracker.late_stopped", 1)
					return
				}
				if !st.acceptedOK {
					simrt.Violate("C15", "event.stopped_without_accept", "tracker %s: 'stopped' sent although no earlier announce of this run was accepted by it", ta.Name)
				}
				ts.stoppedAnn = append(ts.stoppedAnn, stoppedAnn{tracker: ta.Name, runID: ts.runID, uploaded: a.Uploaded})
			case "":
				if st.last == nil {
					simrt.Violate("C15", "event.first_not_started", "tracker %s: first announce of the run has no event", ta.Name)
				}
				// spacing after a successful reply
				if st.lastOK != nil && st.last == st.lastOK {
					bound := cfgMin
					if st.lastOK.Interval > 0 && time.Duration(st.lastOK.Interval)*time.Second < bound {
						bound = time.Duration(st.lastOK.Interval) * time.Second
					}
					if st.lastOK.MinInt > 0 && time.Duration(st.lastOK.MinInt)*time.Second < bound {
						bound = time.Duration(st.lastOK.MinInt) * time.Second
					}
					gap := a.At - st.lastOKAt
					if os.Getenv("SIM_DEBUGSPACING") != "" {
						simrt.Logf("spacing debug %s gap=%v bound=%v cfgMin=%v", ta.Name, gap, bound, cfgMin)
					}
					// the client measures from when it sent, the tracker from when it received:
					// allow for dial round trip, request latency and jitter on both announces
					slack := 4*(plan.Net.LatMax+plan.Net.Jitter+plan.Net.UDPDelayMax) + 200*time.Millisecond
					if ta.UDP {
						// From a UDP tracker's side the time the client started an announce is
						// hidden behind the connect exchange, delayed replies and
						// retransmissions; only a storm (sub-second re-announce) is judged here,
						// the interval logic itself is the same code as for HTTP trackers.
						bound = min(bound, time.Second)
						slack = 0
					}
					if gap+slack < bound {
						simrt.Violate("C15", "spacing.too_soon", "tracker %s: announce %v after a successful one (reply interval=%d min_interval=%d, client minimum %v): closer than %v", ta.Name, gap, st.lastOK.Interval, st.lastOK.MinInt, cfgMin, bound)
					}
				}
			}
			cp := *a
			st.last = &cp
			if a.ReplyOK {
				st.acceptedOK = true
			}
			if a.ReplyOK && !a.Ambiguous && a.Event != "stopped" {
				// ("stopped" is sent by a separate announcer when the torrent stops; a periodic
				// announce that was due at that moment is spaced from the previous periodic one)
				st.lastOK = &cp
				st.lastOKAt = a.At
			}
			// C16 tier sequence (per torrent and tier), events other than stopped
			if a.Event != "stopped" && !a.Cancelled {
				k := fmt.Sprintf("t%d/tier%d/run%d", ti, tierOf[ta.Name], ts.runID)
				res := "fail"
				if a.ReplyOK {
					res = "ok"
				}
				if a.Ambiguous {
					res = "unknown"
					if a.NearTimeout {
						res = "near"
					}
				}
				tierSeq[k] = append(tierSeq[k], ta.Name+":"+res)
				tierAt[k] = append(tierAt[k], a.At)
				tierRep[k] = append(tierRep[k], simrt.Now()) // recorded when the reply has been written
			}
		}
	}
	for _, ta := range trackers {
		ta.OnAnn = onAnn(ta)
	}

	// --- commands -------------------------------------------------------------------
	done := make(chan struct{})
	go func() {
		defer close(done)
		for _, c := range plan.Cmds {
			if c.Gap > 0 {
				time.Sleep(c.Gap)
			}
			if c.Tor >= len(tors) {
				continue
			}
			ts := tors[c.Tor]
			simrt.Logf("cmd t%d %s", c.Tor, c.Kind)
			env.SigAdd("%s", c.Kind)
			switch c.Kind {
			case "start":
				var st torrent.Stats
				sut.In(func() { st = ts.tor.Stats() })
				mu.Lock()
				if st.Status == torrent.Stopped {
					ts.runID++
				}
				mu.Unlock()
				sut.In(func() { ts.tor.Start() })
			case "stop", "stop_uploading":
				var before torrent.Stats
				sut.In(func() { before = ts.tor.Stats() })
				if c.Kind == "stop_uploading" && before.Status != torrent.Stopped {
					// stop while a block is on its way to the leech
					mu.Lock()
					r0 := ts.received
					mu.Unlock()
					for i := 0; i < 3000; i++ {
						mu.Lock()
						moved := ts.received > r0
						mu.Unlock()
						if moved {
							simrt.Count("probe.tracker.stop_while_uploading", 1)
							break
						}
						time.Sleep(20 * time.Millisecond)
					}
				}
				mu.Lock()
				run := ts.runID
				mu.Unlock()
				sut.In(func() { ts.tor.Stop() })
				// wait for Stopped so that run boundaries are unambiguous
				for i := 0; i < 400; i++ {
					var st torrent.Stats
					sut.In(func() { st = ts.tor.Stats() })
					if st.Status == torrent.Stopped {
						if before.Status != torrent.Stopped {
							// nothing is uploaded while stopped: these are the counters of the run
							mu.Lock()
							if ts.finalUploaded == nil {
								ts.finalUploaded = map[int]int64{}
							}
							ts.finalUploaded[run] = st.Bytes.Uploaded
							mu.Unlock()
						}
						break
					}
					time.Sleep(100 * time.Millisecond)
				}
			case "announce":
				sut.In(func() { ts.tor.Announce() })
			}
		}
	}()
	// the wrong-transaction / unreachable peer address must never be dialled
	time.Sleep(plan.Dur)
	<-done

	// --- post-run checks --------------------------------------------------------------
	mu.Lock()
	// C16: fail-over order within a tier
	keys := make([]string, 0, len(tierSeq))
	for k := range tierSeq {
		keys = append(keys, k)
	}
	sort.Strings(keys)
	for _, k := range keys {
		// in the order the announces reached the trackers (they are recorded when the reply is
		// finished, and a slow reply finishes after a later quick one)
		{
			idx := make([]int, len(tierSeq[k]))
			for i := range idx {
				idx[i] = i
			}
			sort.SliceStable(idx, func(a, b int) bool { return tierAt[k][idx[a]] < tierAt[k][idx[b]] })
			s2, a2, r2 := make([]string, len(idx)), make([]time.Duration, len(idx)), make([]time.Duration, len(idx))
			for i, j := range idx {
				s2[i], a2[i], r2[i] = tierSeq[k][j], tierAt[k][j], tierRep[k][j]
			}
			tierSeq[k], tierAt[k], tierRep[k] = s2, a2, r2
			// an outcome the client cannot have seen: the next request left the client before
			// (or just as) the reply can have reached it - an event (completion, a manual
			// announce) made it cancel the announce in flight and send a new one
			for i := range s2 {
				// left about when the client's time-out was due: after its time-out the client
				// waits (back-off) before it announces again, after a cancel it announces at once
				if name, res, _ := strings.Cut(s2[i], ":"); res == "near" {
					if i+1 < len(s2) && a2[i+1]-r2[i] >= time.Second {
						s2[i] = name + ":fail"
					} else {
						s2[i] = name + ":unknown"
					}
				}
			}
			for i := 0; i+1 < len(s2); i++ {
				if a2[i+1]-r2[i] < 2*(plan.Net.LatMax+plan.Net.Jitter)+50*time.Millisecond {
					name, _, _ := strings.Cut(s2[i], ":")
					s2[i] = name + ":unknown"
					simrt.Count("probe.tracker.next_before_reply_seen", 1)
				}
			}
		}
		seq := tierSeq[k]
		var tierIdx int
		fmt.Sscanf(k[strings.Index(k, "/tier")+5:], "%d", &tierIdx)
		n := len(plan.Tiers[tierIdx])
		if n < 2 {
			continue
		}
		// The order rules need the outcome as the client saw it; that is known for HTTP
		// (reply fully written while the request was alive) but not for UDP (datagram loss,
		// retransmission), so tiers with a UDP member are judged by the other oracles only.
		hasUDP := false
		for _, sp := range plan.Tiers[tierIdx] {
			hasUDP = hasUDP || sp.UDP
		}
		if hasUDP {
			continue
		}
		// an announce to a member that is down (dial refused) is invisible to the trackers:
		// pairs and windows that overlap a down period of any member are not judged
		at := tierAt[k]
		overlapsDown := func(i, j int) bool {
			for _, sp := range plan.Tiers[tierIdx] {
				if sp.DownTo > 0 && at[i] <= sp.DownTo+time.Minute && at[j] >= sp.DownFrom-time.Minute {
					return true
				}
			}
			return false
		}
		for i := 0; i+1 < len(seq); i++ {
			if overlapsDown(i, i+1) {
				continue
			}
			name, res, _ := strings.Cut(seq[i], ":")
			next, nres, _ := strings.Cut(seq[i+1], ":")
			if res == "unknown" || nres == "unknown" {
				continue
			}
			if res == "ok" && next != name {
				simrt.Violate("C16", "tier.left_working_tracker", "%s: announce to %s succeeded but the next announce went to %s (sequence %v)", k, name, next, seq[max(0, i-3):min(len(seq), i+3)])
				break
			}
			if res == "fail" && next == name {
				simrt.Violate("C16", "tier.no_failover", "%s: announce to %s failed but the next announce went to %s again (sequence %v)", k, name, next, seq[max(0, i-3):min(len(seq), i+3)])
				break
			}
		}
		// a full cycle of failures visits every member
		for i := 0; i+n <= len(seq); i++ {
			if overlapsDown(i, i+n-1) {
				continue
			}
			allFail := true
			seen := map[string]bool{}
			for j := i; j < i+n; j++ {
				name, res, _ := strings.Cut(seq[j], ":")
				if res != "fail" {
					allFail = false
					break
				}
				seen[name] = true
			}
			if allFail && len(seen) != n {
				simrt.Violate("C16", "tier.cycle_incomplete", "%s: %d consecutive failures visited only %d of %d tier members (%v)", k, n, len(seen), n, seq[i:i+n])
				break
			}
		}
	}
	// C16: retry liveness — every running torrent keeps contacting each tier
	now := simrt.Now()
	for ti, ts := range tors {
		var st torrent.Stats
		mu.Unlock()
		sut.In(func() { st = ts.tor.Stats() })
		mu.Lock()
		if st.Status == torrent.Stopped || st.Status == torrent.Stopping {
			continue
		}
		for tierIdx, tier := range plan.Tiers {
			last := time.Duration(-1)
			var lastA *Announce
			for _, spec := range tier {
				for _, ta := range trackers {
					if ta.Name != spec.Name {
						continue
					}
					for _, a := range ta.Log {
						if a.InfoHash == ts.T.InfoHash && a.At > last {
							last = a.At
							cp := a
							lastA = &cp
						}
					}
				}
			}
			// the longest legitimate silence: a successful reply's interval, or the maximum
			// back-off (30 min * 1.5) plus time-outs
			bound := 50 * time.Minute
			lossy := false
			for _, sp := range tier {
				if sp.UDP {
					bound = 3 * time.Hour // BEP 15 retransmission reaches 64 minutes between datagrams
					lossy = plan.Net.UDPLoss > 0
				}
			}
			if lossy {
				// datagram loss is a fault that never stops in this plan: with 64-minute
				// retransmission steps no bound can be demanded (liveness is asserted only
				// once faults have stopped)
				continue
			}
			if lastA != nil && lastA.ReplyOK {
				iv := time.Duration(lastA.Interval) * time.Second
				if iv > bound {
					bound = iv + 5*time.Minute
				}
				if mi := time.Duration(lastA.MinInt) * time.Second; mi > bound {
					bound = mi + 5*time.Minute // the tracker forbade announcing sooner
				}
			}
			if lastA != nil && lastA.RetryIn != "" {
				// the tracker itself told the client when to come back (BEP 31)
				var mins int64
				fmt.Sscanf(lastA.RetryIn, "%d", &mins)
				if d := time.Duration(mins) * time.Minute; d > bound {
					bound = d + 5*time.Minute
				}
			}
			down := false
			for _, spec := range tier {
				if spec.DownTo > 0 && now < spec.DownTo+bound {
					down = true
				}
			}
			if last < 0 {
				if now > 10*time.Minute && !down {
					simrt.Violate("C16", "retry.never_announced", "torrent t%d is %s but tier %d was never contacted in %v", ti, st.Status, tierIdx, now)
				}
				continue
			}
			if now-last > bound && !down {
				simrt.Violate("C16", "retry.stalled", "torrent t%d is %s but tier %d was last contacted %v ago (last reply kind %q); back-off is bounded by 45 min", ti, st.Status, tierIdx, now-last, lastA.Reply)
			}
		}
	}
	mu.Unlock()
	// C16: read limit on HTTP replies
	limit := int64(sut.Cfg.TrackerHTTPMaxResponseSize)
	for _, ta := range trackers {
		for _, a := range ta.Announces() {
			if a.ConsumedOfReply > limit+128<<10 {
				simrt.Violate("C16", "reply.read_beyond_limit", "the client read %d bytes of one reply of tracker %s, the configured response limit is %d", a.ConsumedOfReply, ta.Name, limit)
			}
			if a.ConsumedOfReply > 0 {
				simrt.Count("probe.tracker.oversize_reply_consumed", 1)
			}
		}
	}
	// C15: the 'stopped' announce of a run carries the torrent's final counters (all peers are
	// closed before it is built, nothing moves until the next start)
	for ti, ts := range tors {
		for _, sa := range ts.stoppedAnn {
			if want, ok := ts.finalUploaded[sa.runID]; ok && sa.uploaded != want {
				simrt.Violate("C15", "announce.stopped_counters", "tracker %s, torrent %d: 'stopped' carries uploaded=%d, the torrent's upload counter after that stop is %d", sa.tracker, ti, sa.uploaded, want)
			}
			if sa.uploaded > 0 {
				simrt.Count("probe.tracker.stopped_with_upload", 1)
			}
		}
	}
	// replies under a wrong transaction id / garbage must never be used: their peer is never dialled
	for _, d := range env.Net.Dials {
		if strings.HasPrefix(d.To, "10.251.") {
			simrt.Violate("C16", "reply.wrong_tx_accepted", "the client dialled %s, an address only present in a reply with a wrong transaction id", d.To)
		}
	}
	total := 0
	for _, ta := range trackers {
		total += len(ta.Announces())
	}
	env.Stats["announces"] = total
	env.NonTriv = total > 2
	env.SigAdd("tiers=%d torrents=%d", len(plan.Tiers), nt)
	simrt.FreezeTrace()
	if seed != nil {
		seed.Stop()
	}
	for _, ta := range trackers {
		ta.Stop()
	}
	sut.Close()
}

type simnetTCPAddr = simnet.TCPAddr
type simnetUDPAddr = simnet.UDPAddr

func i64(v int64) *int64 { return &v }

func genReply(r *simrt.Rand, udp bool) Reply {
	ivs := []int64{0, -1, 1, 5, 30, 60, 120, 1800, -2147483648, 2147483647, 4000000000}
	rep := Reply{}
	k := r.Intn(100)
	switch {
	case k < 50:
		rep.Kind = "ok"
	case k < 62:
		rep.Kind = "fail"
		if r.Chance(0.3) {
			rep.RetryIn = simrt.Pick(r, []string{"1", "5", "never", "-3", "999999"})
		}
	case k < 70:
		rep.Kind = "noreply"
	case k < 78:
		rep.Kind = "garbage"
	case k < 84 && !udp:
		rep.Kind = "http4xx"
	case k < 88 && !udp:
		rep.Kind = "http5xx"
	case k < 91 && !udp:
		rep.Kind = "oversize"
	case k < 84 && udp:
		rep.Kind = "wrongtx"
	case k < 88 && udp:
		rep.Kind = "short"
	case k < 92 && udp:
		rep.Kind = "dup"
	case k < 100 && udp && r.Chance(0.5):
		rep.Kind = "stray"
	default:
		rep.Kind = "ok"
	}
	if rep.Kind == "ok" || rep.Kind == "dup" || rep.Kind == "stray" || rep.Kind == "wrongtx" || rep.Kind == "short" {
		if r.Chance(0.8) {
			rep.Interval = i64(simrt.Pick(r, ivs))
		}
		if !udp && r.Chance(0.3) {
			rep.MinInterval = i64(simrt.Pick(r, ivs))
		}
		rep.DictPeers = !udp && r.Chance(0.3)
	}
	if r.Chance(0.15) {
		rep.Delay = r.Dur(0, 20*time.Second)
	}
	return rep
}

func init() {
	Register(&Scenario{Name: "trackers", Gen: func(r *simrt.Rand, tier string, p *Plan) {
		l := gen.RandomLayout(r, gen.GenOpts{MaxPieces: 4, MaxPieceLen: 32 << 10})
		tp := &TrackerPlan{Layout: l, Net: netCfg(r), Torrents: r.Range(1, 3), WithSeed: r.Chance(0.6)}
		tp.Net.UDPLoss = simrt.Pick(r, []float64{0, 0, 0.1, 0.3})
		tp.Net.UDPDup = simrt.Pick(r, []float64{0, 0.1})
		tp.Net.UDPBurstP = simrt.Pick(r, []float64{0, 0.5, 1})
		k := Knobs{DisableOutgoingEncryption: true}
		k.TrackerMinAnnounceInterval = simrt.Pick(r, []time.Duration{0, 10 * time.Second, time.Minute})
		k.TrackerStopTimeout = simrt.Pick(r, []time.Duration{0, time.Second, 5 * time.Second})
		k.TrackerHTTPTimeout = simrt.Pick(r, []time.Duration{0, 3 * time.Second})
		k.PeerConnectTimeout = time.Second
		tp.K = k
		tp.Dur = r.Dur(30*time.Minute, 5*time.Hour)
		if tier == "thorough" {
			tp.Dur = r.Dur(time.Hour, 12*time.Hour)
		}
		nTiers := r.Range(1, 3)
		n := 0
		for ti := 0; ti < nTiers; ti++ {
			var tr []TrackerSpec
			for j := 0; j < r.Range(1, 4); j++ {
				ts := TrackerSpec{Name: fmt.Sprintf("tr%d", n), UDP: r.Chance(0.4)}
				n++
				for s := 0; s < r.Range(1, 12); s++ {
					ts.Script = append(ts.Script, genReply(r, ts.UDP))
				}
				if r.Chance(0.15) {
					ts.Delay = r.Dur(0, 5*time.Second)
				}
				if r.Chance(0.2) {
					ts.DownFrom = r.Dur(0, tp.Dur/2)
					ts.DownTo = ts.DownFrom + r.Dur(time.Second, tp.Dur/3)
				}
				tr = append(tr, ts)
			}
			tp.Tiers = append(tp.Tiers, tr)
		}
		// commands: start everything early (with jitter), then stop/start/announce cycles
		for i := 0; i < tp.Torrents; i++ {
			tp.Cmds = append(tp.Cmds, TCmd{Gap: r.Dur(0, 3*time.Second), Tor: i, Kind: "start"})
		}
		for i := 0; i < r.Range(0, 8); i++ {
			tp.Cmds = append(tp.Cmds, TCmd{Gap: r.Dur(0, tp.Dur/10), Tor: r.Intn(tp.Torrents), Kind: simrt.Pick(r, []string{"stop", "start", "announce", "announce"})})
		}
		if tp.WithSeed && r.Chance(0.4) {
			// uploads to a leech over a narrow connection, stops that land inside a block
			tp.Leech = true
			tp.Net.Window = 4096
			for i := range tp.Cmds {
				if tp.Cmds[i].Kind == "stop" && tp.Cmds[i].Tor == 0 {
					tp.Cmds[i].Kind = "stop_uploading"
				}
			}
			// the leech reconnects with nothing after every start: stop as soon as a block moved
			for j := 0; j < r.Range(1, 3); j++ {
				tp.Cmds = append(tp.Cmds, TCmd{Gap: r.Dur(0, 30*time.Second), Tor: 0, Kind: "start"}, TCmd{Gap: r.Dur(0, 2*time.Second), Tor: 0, Kind: "stop_uploading"})
			}
			tp.Cmds = append(tp.Cmds, TCmd{Gap: r.Dur(0, 10*time.Second), Tor: 0, Kind: "start"})
		}
		p.Trackers = tp
	}, Run: func(env *Env, p *Plan) { RunTrackers(env, p.Trackers) }})
}
