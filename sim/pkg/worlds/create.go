package worlds

import (
	"bytes"
	"crypto/sha1"
	"fmt"
	"sort"
	"strings"
	"time"

	"github.com/cenkalti/rain/v2/internal/logger"
	"github.com/cenkalti/rain/v2/internal/metainfo"
	"github.com/cenkalti/rain/v2/internal/zzsim/gen"
	"github.com/cenkalti/rain/v2/internal/zzsim/simfs"
	"github.com/cenkalti/rain/v2/internal/zzsim/simrt"
	"github.com/cenkalti/rain/v2/torrent"
)

// CreatePlan: a directory tree on the simulated disk is turned into a torrent by rain's own
// creation code (reads that return short counts, files ending on and off piece boundaries,
// empty files, nested directories); the result must equal an independent flat-array model and
// must verify completely against the very same tree in a real session (C02).
type CreatePlan struct {
	Files    []CFile `json:"files"`
	PieceLen int     `json:"piece_len"` // 0 = let rain choose
	Single   bool    `json:"single"`
	ReadMax  int     `json:"read_max"`
}

type CFile struct {
	Path string `json:"path"`
	Len  int    `json:"len"`
}

func RunCreate(env *Env, plan *CreatePlan) {
	host := env.NewHost("sut", "sut")
	fs := simfs.New("sut", env.R.Uint64())
	fs.ReadChunkMax = plan.ReadMax
	r := env.R.Fork()
	k := Knobs{DataDirNoID: true, TrackerStopTimeout: time.Second}
	sut, err := env.StartNode(host, fs, "", k)
	if err != nil {
		panic("harness: cannot start SUT: " + err.Error())
	}
	root := sut.Cfg.DataDir + "/tree"
	files := append([]CFile(nil), plan.Files...)
	if plan.Single {
		files = files[:1]
		parts := strings.Split(files[0].Path, "/")
		root = sut.Cfg.DataDir + "/" + parts[len(parts)-1]
		files[0].Path = ""
	}
	content := map[string][]byte{}
	for _, f := range files {
		p := root
		if f.Path != "" {
			p = root + "/" + f.Path
		}
		content[p] = r.Bytes(f.Len)
		fs.Put(p, content[p])
	}
	var info []byte
	var cerr error
	sut.In(func() {
		info, cerr = metainfo.NewInfoBytes("", []string{root}, false, uint32(plan.PieceLen), "", logger.New("create"))
	})
	simrt.Logf("create: %d files piece_len=%d single=%v -> %d bytes err=%v", len(files), plan.PieceLen, plan.Single, len(info), cerr)
	env.NonTriv = true
	env.SigAdd("files=%d pl=%d err=%v", len(files), plan.PieceLen, cerr != nil)
	if cerr != nil {
		total := 0
		for _, f := range files {
			total += f.Len
		}
		if total > 0 {
			simrt.Violate("C02", "create.error", "creating a torrent from a readable tree of %d bytes failed: %v", total, cerr)
		}
		sut.Close()
		return
	}
	// independent model: files in lexical walk order, flat concatenation, fixed-size pieces
	d, derr := gen.RawDict(info)
	if derr != nil {
		simrt.Violate("C02", "create.encoding", "created info dictionary does not decode: %v", derr)
		return
	}
	v, _, _ := gen.Bdecode(info)
	im := v.(map[string]any)
	pl := int(im["piece length"].(int64))
	if pl <= 0 || pl%16384 != 0 {
		simrt.Violate("C02", "create.piece_length", "created torrent has piece length %d", pl)
		return
	}
	var paths []string
	for p := range content {
		paths = append(paths, p)
	}
	sort.Slice(paths, func(i, j int) bool { return walkLess(paths[i], paths[j]) })
	var flat []byte
	for _, p := range paths {
		flat = append(flat, content[p]...)
	}
	var want []byte
	for off := 0; off < len(flat); off += pl {
		h := sha1.Sum(flat[off:min(off+pl, len(flat))])
		want = append(want, h[:]...)
	}
	gs, _ := im["pieces"].(string)
	got := []byte(gs)
	if !bytes.Equal(got, want) {
		simrt.Violate("C02", "create.pieces", "piece hashes of the created torrent differ from the hashes of the tree's bytes in walk order (%d vs %d pieces of %d bytes over %d bytes)", len(got)/20, len(want)/20, pl, len(flat))
	}
	_ = d
	// the client must verify its own creation against the same tree
	meta, merr := metainfo.NewBytes(info, nil, nil, "")
	if merr != nil {
		simrt.Violate("C02", "create.encoding", "metainfo.NewBytes failed on the created info: %v", merr)
		return
	}
	var tor *torrent.Torrent
	var aerr error
	sut.In(func() { tor, aerr = sut.Sess.AddTorrent(bytes.NewReader(meta), &torrent.AddTorrentOptions{ID: "tt"}) })
	if aerr != nil {
		simrt.Violate("C02", "create.rejected", "the client rejects the torrent it created: %v", aerr)
		return
	}
	var st torrent.Stats
	for i := 0; i < 600; i++ {
		time.Sleep(100 * time.Millisecond)
		sut.In(func() { st = tor.Stats() })
		if st.Status == torrent.Seeding || st.Status == torrent.Downloading || st.Status == torrent.Stopped {
			break
		}
	}
	if st.Status != torrent.Seeding || st.Pieces.Have != st.Pieces.Total {
		simrt.Violate("C02", "create.verify_incomplete", "a torrent created from a tree does not verify against that tree: status %s, %d of %d pieces, error %v (files %s)", st.Status, st.Pieces.Have, st.Pieces.Total, st.Error, strings.Join(paths, ","))
	}
	simrt.FreezeTrace()
	sut.Close()
	_ = fmt.Sprint
}

// walkLess orders paths as filepath.Walk visits them: lexical order of names per directory.
func walkLess(a, b string) bool {
	as, bs := strings.Split(a, "/"), strings.Split(b, "/")
	for i := 0; i < len(as) && i < len(bs); i++ {
		if as[i] != bs[i] {
			return as[i] < bs[i]
		}
	}
	return len(as) < len(bs)
}

func init() {
	Register(&Scenario{Name: "create", Gen: func(r *simrt.Rand, tier string, p *Plan) {
		cp := &CreatePlan{PieceLen: simrt.Pick(r, []int{0, 16384, 16384, 32768, 65536}), Single: r.Chance(0.25), ReadMax: simrt.Pick(r, []int{0, 1, 100, 4096, 16384, 20000})}
		pl := cp.PieceLen
		if pl == 0 {
			pl = 32768
		}
		names := []string{"a", "b", "c.bin", "d/e", "d/f", "d/g/h", "z", "A", "d0", "d.x", "_"}
		n := r.Range(1, 7)
		used := map[string]bool{}
		for i := 0; i < n; i++ {
			nm := simrt.Pick(r, names)
			if used[nm] || used[strings.Split(nm, "/")[0]] && !strings.Contains(nm, "/") {
				continue
			}
			clash := false
			for u := range used {
				if strings.HasPrefix(u, nm+"/") || strings.HasPrefix(nm, u+"/") {
					clash = true
				}
			}
			if clash {
				continue
			}
			used[nm] = true
			l := simrt.Pick(r, []int{0, 1, pl - 1, pl, pl + 1, 2 * pl, r.Range(0, 3*pl), 16384, 16383})
			cp.Files = append(cp.Files, CFile{Path: nm, Len: l})
		}
		if len(cp.Files) == 0 {
			cp.Files = []CFile{{Path: "a", Len: r.Range(1, 50000)}}
		}
		p.Create = cp
	}, Run: func(env *Env, p *Plan) { RunCreate(env, p.Create) }})
}
