package worlds

import (
	"bytes"
	"fmt"
	"sync"
	"time"

	"github.com/cenkalti/rain/v2/internal/zzsim/gen"
	"github.com/cenkalti/rain/v2/internal/zzsim/simfs"
	"github.com/cenkalti/rain/v2/internal/zzsim/simnet"
	"github.com/cenkalti/rain/v2/internal/zzsim/simrt"
	"github.com/cenkalti/rain/v2/torrent"
)

// PairPlan: two (or three) real rain sessions talk to each other over a fragmenting network:
// whatever one side's writer emits the other side's reader must decode (C11), in plaintext and
// through MSE (C12), for every fragmentation of the byte stream.
type PairPlan struct {
	Layout   gen.Layout    `json:"layout"`
	KA       Knobs         `json:"knobs_a"` // the seeding session
	KB       Knobs         `json:"knobs_b"` // the downloading session(s)
	Net      simnet.Config `json:"net"`
	Leechers int           `json:"leechers"`
	Bound    time.Duration `json:"bound"`
	// Magnet: the leechers know only the info-hash and the seeder's address (x.pe): the seeder
	// serves the metadata.
	Magnet bool `json:"magnet,omitempty"`
	// SeederDials: the seeder is given the leecher's address instead of the other way round
	// (unused: a completed rain torrent does not dial).
	SeederDials bool `json:"seeder_dials,omitempty"`
}

const btProto = "\x13BitTorrent protocol"

type pairTap struct {
	mu    sync.Mutex
	first map[int]*[2][]byte // pair id -> first bytes per direction
}

func RunPair(env *Env, plan *PairPlan) {
	T := gen.Build(plan.Layout)
	env.Net.Cfg = plan.Net
	tap := &pairTap{first: map[int]*[2][]byte{}}
	env.Net.OnConnect = func(p *simnet.Pair) {
		if p.HostA == nil || p.HostB == nil || p.HostA.Role != "sut" || p.HostB.Role != "sut" {
			return
		}
		f := &[2][]byte{}
		tap.mu.Lock()
		tap.first[p.ID] = f
		tap.mu.Unlock()
		p.Tap = func(dir int, b []byte) {
			tap.mu.Lock()
			if len(f[dir]) < 68 {
				f[dir] = append(f[dir], b[:min(len(b), 68-len(f[dir]))]...)
			}
			tap.mu.Unlock()
		}
	}
	// seeder
	hostA := env.NewHost("ra", "sut") // not the 30.0.0.1 host: every session in the process regards that address as its own
	fsA := simfs.New("ra", env.R.Uint64())
	A, err := env.StartNode(hostA, fsA, "", plan.KA)
	if err != nil {
		panic("harness: cannot start seeder: " + err.Error())
	}
	dirA := A.TorrentDir("tt")
	for fi, f := range T.Files {
		if !f.Pad {
			fsA.Put(dirA+"/"+T.FileRel(fi), T.FileData(fi))
		}
	}
	var torA *torrent.Torrent
	A.In(func() {
		torA, err = A.Sess.AddTorrent(bytes.NewReader(T.MetaBytes), &torrent.AddTorrentOptions{ID: "tt"})
	})
	if err != nil {
		simrt.Violate("C10", "add.rejected", "valid torrent rejected: %v", err)
		return
	}
	for i := 0; i < 600; i++ {
		var st torrent.Stats
		A.In(func() { st = torA.Stats() })
		if st.Status == torrent.Seeding {
			break
		}
		time.Sleep(100 * time.Millisecond)
	}
	addrA := fmt.Sprintf("%s:%d", hostA.IP, torA.Port())
	type leech struct {
		n    *Node
		tor  *torrent.Torrent
		dir  string
		done bool
	}
	var ls []*leech
	for i := 0; i < max(1, plan.Leechers); i++ {
		h := env.NewHost(fmt.Sprintf("rb%d", i), "sut")
		n, err := env.StartNode(h, simfs.New(h.Name, env.R.Uint64()), "", plan.KB)
		if err != nil {
			panic("harness: cannot start leecher: " + err.Error())
		}
		l := &leech{n: n, dir: n.TorrentDir("tt")}
		n.In(func() {
			if plan.Magnet {
				l.tor, err = n.Sess.AddURI(buildMagnet(T.InfoHash, false, T.Name, nil, []string{addrA}), &torrent.AddTorrentOptions{ID: "tt"})
			} else {
				l.tor, err = n.Sess.AddTorrent(bytes.NewReader(T.MetaBytes), &torrent.AddTorrentOptions{ID: "tt"})
			}
		})
		if err != nil {
			simrt.Violate("C10", "add.rejected", "valid torrent rejected: %v", err)
			return
		}
		ls = append(ls, l)
		time.Sleep(env.R.Dur(0, 2*time.Second))
		if plan.SeederDials {
			addrB := fmt.Sprintf("%s:%d", h.IP, l.tor.Port())
			A.In(func() { torA.AddPeer(addrB) })
		} else {
			n.In(func() { l.tor.AddPeer(addrA) })
		}
	}
	// wait
	deadline := simrt.Now() + plan.Bound
	checkIDs := func() {
		// plaintext handshakes seen on the wire vs what each side reports about its peer
		tap.mu.Lock()
		defer tap.mu.Unlock()
		for _, p := range env.Net.Pairs() {
			f := tap.first[p.ID]
			if f == nil || p.Closed(0) || p.Closed(1) {
				continue
			}
			for dir := 0; dir < 2; dir++ {
				if len(f[dir]) < 68 || !bytes.HasPrefix(f[dir], []byte(btProto)) {
					continue // encrypted or not complete yet
				}
				wireID := f[dir][48:68]
				// dir 0 is written by the dialer (HostA): the acceptor (HostB) must report it
				reader, writerAddr := p.HostB, p.AddrA().String()
				if dir == 1 {
					reader, writerAddr = p.HostA, p.AddrB().String()
				}
				for _, n := range env.nodes {
					if n.Host != reader || n.Closed {
						continue
					}
					var ps []torrent.Peer
					n.In(func() {
						if t := n.Sess.GetTorrent("tt"); t != nil {
							ps = t.Peers()
						}
					})
					for _, q := range ps {
						if q.Addr.String() == writerAddr && !bytes.Equal(q.ID[:], wireID) {
							simrt.Violate("C11", "pair.peer_id", "%s reports peer %s with id %x, the handshake on the wire carried %x", reader.Name, writerAddr, q.ID, wireID)
						}
					}
				}
			}
		}
	}
	cfgOf := func(h *simrt.Host) *torrent.Config {
		for _, n := range env.nodes {
			if n.Host == h {
				return &n.Cfg
			}
		}
		return nil
	}
	// C12, policy clause: a session that forces encryption never uses a connection in the clear
	checkEnc := func() {
		tap.mu.Lock()
		for _, p := range env.Net.Pairs() {
			f := tap.first[p.ID]
			if f == nil {
				continue
			}
			dialer, acceptor := cfgOf(p.HostA), cfgOf(p.HostB)
			plainOut := len(f[0]) >= 20 && bytes.HasPrefix(f[0], []byte(btProto))
			if dialer != nil && dialer.ForceOutgoingEncryption && plainOut {
				simrt.Violate("C12", "policy.forced_out_plaintext", "%s forces outgoing encryption but opened connection #%d to %s with a plaintext handshake", p.HostA.Name, p.ID, p.HostB.Name)
			}
			if acceptor != nil && acceptor.ForceIncomingEncryption && plainOut && len(f[1]) > 0 {
				simrt.Violate("C12", "policy.forced_in_answered_plaintext", "%s forces incoming encryption but answered the plaintext handshake of %s on connection #%d (%d bytes written)", p.HostB.Name, p.HostA.Name, p.ID, len(f[1]))
			}
		}
		tap.mu.Unlock()
		for _, n := range env.nodes {
			if n.Closed {
				continue
			}
			var ps []torrent.Peer
			n.In(func() {
				if t := n.Sess.GetTorrent("tt"); t != nil {
					ps = t.Peers()
				}
			})
			for _, q := range ps {
				in := q.Source == torrent.SourceIncoming
				if ((in && n.Cfg.ForceIncomingEncryption) || (!in && n.Cfg.ForceOutgoingEncryption)) && !q.EncryptedStream {
					simrt.Violate("C12", "policy.unencrypted_peer", "%s forces encryption (incoming=%v) but reports peer %s with encrypted handshake=%v stream=%v", n.Host.Name, in, q.Addr, q.EncryptedHandshake, q.EncryptedStream)
				}
			}
		}
	}
	for simrt.Now() < deadline {
		all := true
		for _, l := range ls {
			if !l.done {
				select {
				case <-l.tor.NotifyComplete():
					l.done = true
					simrt.Logf("%s reports completion", l.n.Host.Name)
				default:
					all = false
				}
			}
		}
		checkIDs()
		checkEnc()
		if all {
			break
		}
		time.Sleep(250 * time.Millisecond)
	}
	for _, l := range ls {
		var st torrent.Stats
		l.n.In(func() { st = l.tor.Stats() })
		if !l.done && plan.KA.ForceIncomingEncryption && plan.KB.DisableOutgoingEncryption {
			simrt.Count("probe.pair.incompatible_policies_no_transfer", 1)
			continue
		}
		if !l.done {
			var ps []string
			l.n.In(func() {
				for _, p := range l.tor.Peers() {
					ps = append(ps, fmt.Sprintf("%s enc=%v/%v", p.Addr, p.EncryptedHandshake, p.EncryptedStream))
				}
			})
			simrt.Violate("C11", "pair.not_complete", "a rain session did not finish downloading from a seeding rain session within %v over a fault-free network that only fragments and delays the byte stream: status=%s have=%d/%d peers=%v err=%v", plan.Bound, st.Status, st.Pieces.Have, st.Pieces.Total, ps, st.Error)
			continue
		}
		for fi, f := range T.Files {
			if f.Pad || f.Length == 0 {
				continue
			}
			got, _ := l.n.FS.Get(l.dir + "/" + T.FileRel(fi))
			if !bytes.Equal(got, T.FileData(fi)) {
				simrt.Violate("C11", "pair.content", "%s: file %s differs from the content the seeder holds after a rain-to-rain transfer", l.n.Host.Name, T.FileRel(fi))
			}
		}
	}
	env.NonTriv = true
	env.Stats["pieces"] = T.NumPieces
	env.SigAdd("np=%d leechers=%d", T.NumPieces, len(ls))
	simrt.FreezeTrace()
	for _, n := range env.nodes {
		n.Close()
	}
}

func init() {
	Register(&Scenario{Name: "pair", Gen: func(r *simrt.Rand, tier string, p *Plan) {
		o := gen.GenOpts{MaxPieces: 12, MaxPieceLen: 64 << 10, AllowPad: true}
		lay := gen.RandomLayout(r, o)
		if r.Chance(0.2) {
			lay = manyFilesLayout(r)
		}
		pp := &PairPlan{Layout: lay, Net: netCfg(r), Leechers: simrt.Pick(r, []int{1, 1, 2}), Bound: 20 * time.Minute, SeederDials: false}
		pp.Magnet = r.Chance(0.35)
		pp.Net.FragMode = simrt.Pick(r, []int{0, 1, 1, 2})
		pp.Net.ShortReadP = r.Float()
		// encryption policies, each side drawn on its own ('disable' and 'force' never both)
		pol := func(k *Knobs) {
			switch r.Intn(3) {
			case 0:
				k.DisableOutgoingEncryption = true
			case 1:
				k.ForceOutgoingEncryption = true
			}
			k.ForceIncomingEncryption = r.Chance(0.4)
		}
		pol(&pp.KA)
		pol(&pp.KB)
		if pp.KA.ForceIncomingEncryption && pp.KB.DisableOutgoingEncryption {
			pp.Bound = 2 * time.Minute // nothing can be transferred: only the policy oracles run
		}
		if r.Chance(0.4) {
			pp.KA.MaxRequestsIn = r.Range(1, 20)
		}
		if r.Chance(0.4) {
			pp.KB.MaxRequestsOut, pp.KB.DefaultRequestsOut = r.Range(1, 30), r.Range(1, 30)
		}
		if r.Chance(0.3) {
			pp.KA.ReadCacheBlockSize = int64(simrt.Pick(r, []int{16 << 10, 48 << 10, 100000, 128 << 10}))
		}
		pp.KA.PeerConnectTimeout, pp.KB.PeerConnectTimeout = 5*time.Second, 5*time.Second
		p.Pair = pp
	}, Run: func(env *Env, p *Plan) { RunPair(env, p.Pair) }})
}
