package worlds

import (
	"bytes"
	"encoding/json"
	"fmt"
	"os"
	"reflect"
	"sort"
	"strings"
	"sync"
	"time"

	"github.com/anishathalye/porcupine"
	"github.com/cenkalti/rain/v2/internal/resumer/boltdbresumer"
	"github.com/cenkalti/rain/v2/internal/zzsim/gen"
	"github.com/cenkalti/rain/v2/internal/zzsim/simfs"
	"github.com/cenkalti/rain/v2/internal/zzsim/simrt"
	"github.com/cenkalti/rain/v2/torrent"
	"go.etcd.io/bbolt"
)

// ROp is one registry operation of a client.
type ROp struct {
	Gap  time.Duration `json:"gap"`
	Kind string        `json:"kind"` // add addm remove start stop addtracker list stats
	ID   string        `json:"id,omitempty"`
	Meta int           `json:"meta,omitempty"` // which metainfo (index into the plan's torrents); -1 = invalid bytes
	Keep bool          `json:"keep,omitempty"`
}

// RegistryPlan: concurrent clients add/remove/start/stop torrents in one session with a tiny
// port range; quiescent invariants, linearizability of the recorded history, restart fidelity.
type RegistryPlan struct {
	K       Knobs   `json:"knobs"`
	Ports   int     `json:"ports"`
	Metas   int     `json:"metas"`
	Clients [][]ROp `json:"clients"`
	Phases  int     `json:"phases"` // the client scripts are split over this many phases, with a restart between
	// LowerMaxPieces > 0: the first restart runs with this piece-count limit: records of bigger
	// torrents read back fine but are refused at load (they stay in the database, unloaded)
	LowerMaxPieces uint32       `json:"lower_max_pieces,omitempty"`
	Compact        bool         `json:"compact"`
	YieldP         float64      `json:"yield_p"`
	SpecSeed       uint64       `json:"spec_seed"`
	Layouts        []gen.Layout `json:"layouts,omitempty"`
}

type regState struct {
	// id -> port
	m map[string]int
	n int // total ports
}

type regIn struct {
	Kind string
	ID   string
	Meta int
}
type regOut struct {
	Err   bool
	ID    string
	Port  int
	IDs   string // sorted ids for list
	Free  int
	Exist bool
}

func cloneReg(s regState) regState {
	m := make(map[string]int, len(s.m))
	for k, v := range s.m {
		m[k] = v
	}
	return regState{m: m, n: s.n}
}

func regKey(s regState) string {
	ks := make([]string, 0, len(s.m))
	for k, v := range s.m {
		ks = append(ks, fmt.Sprintf("%s=%d", k, v))
	}
	sort.Strings(ks)
	return strings.Join(ks, ",")
}

var regModel = porcupine.Model{
	Init: func() interface{} { return regState{m: map[string]int{}} },
	Step: func(state, input, output interface{}) (bool, interface{}) {
		s := state.(regState)
		in := input.(regIn)
		out := output.(regOut)
		switch in.Kind {
		case "init":
			return true, regState{m: map[string]int{}, n: out.Free}
		case "add", "addm":
			if in.Meta < 0 { // invalid input: must fail, nothing changes
				return out.Err, s
			}
			if out.Err {
				// A failed add changes nothing. The property does not say when an add must
				// succeed (rain reserves a port before it notices a duplicate id, so a
				// concurrent add may see the range exhausted for a moment).
				return true, s
			}
			if in.ID != "" && out.ID != in.ID {
				return false, s
			}
			if _, dup := s.m[out.ID]; dup {
				return false, s
			}
			for _, p := range s.m {
				if p == out.Port {
					return false, s
				}
			}
			if len(s.m) >= s.n {
				return false, s
			}
			ns := cloneReg(s)
			ns.m[out.ID] = out.Port
			return true, ns
		case "remove":
			if _, ok := s.m[in.ID]; !ok {
				return true, s
			}
			ns := cloneReg(s)
			delete(ns.m, in.ID)
			return !out.Err, ns
		case "list":
			ks := make([]string, 0, len(s.m))
			for k := range s.m {
				ks = append(ks, k)
			}
			sort.Strings(ks)
			return strings.Join(ks, ",") == out.IDs, s
		case "get":
			_, ok := s.m[in.ID]
			return ok == out.Exist, s
		}
		return true, s
	},
	Equal:             func(a, b interface{}) bool { return regKey(a.(regState)) == regKey(b.(regState)) },
	DescribeOperation: func(in, out interface{}) string { return fmt.Sprintf("%+v -> %+v", in, out) },
}

type torSnap struct {
	ID, Name string
	InfoHash string
	Port     int
	Started  bool
	AddedAt  time.Time
	Trackers string
	Webseeds string
	HasInfo  bool
	Pieces   uint32
	Bytes    int64
	Down, Up int64
}

func RunRegistry(env *Env, plan *RegistryPlan) {
	r := env.R.Fork()
	simrt.SetYield(plan.YieldP, env.Seed)
	simrt.YieldTxOn = true
	var Ts []*gen.Torrent
	for i := 0; i < plan.Metas; i++ {
		l := gen.RandomLayout(r, gen.GenOpts{MaxPieces: 3, MaxPieceLen: 16 << 10})
		l.Name = fmt.Sprintf("reg%d", i)
		l.Trackers = [][]string{{fmt.Sprintf("http://10.9.0.%d:6969/a", i+1)}, {fmt.Sprintf("udp://10.9.1.%d:6969", i+1), fmt.Sprintf("http://10.9.2.%d/x", i+1)}}
		if i%2 == 0 {
			l.URLList = []string{fmt.Sprintf("http://10.8.0.%d/ws/", i+1)}
		}
		Ts = append(Ts, gen.Build(l))
	}
	k := plan.K
	k.PortBegin, k.PortEnd = 21000, uint16(21000+plan.Ports)
	k.PeerConnectTimeout = time.Second
	k.TrackerStopTimeout = time.Second
	host := env.NewHost("sut", "sut")
	fs := simfs.New("sut", env.R.Uint64())
	node, err := env.StartNode(host, fs, "", k)
	if err != nil {
		panic("harness: cannot start SUT: " + err.Error())
	}
	var hmu sync.Mutex
	var history []porcupine.Operation
	record := func(client int, in regIn, call uint64, out regOut) {
		hmu.Lock()
		history = append(history, porcupine.Operation{ClientId: client, Input: in, Call: int64(call), Output: out, Return: int64(simrt.Seq())})
		hmu.Unlock()
	}
	stamp := func(s string) uint64 { simrt.Logf("%s", s); return simrt.Seq() }
	// keyed by the torrent object, not by id: an id can be removed and added again while calls
	// on the old object are still running
	started := map[*torrent.Torrent]bool{}
	inflight := map[*torrent.Torrent]int{}
	opGen := map[*torrent.Torrent]int{}
	ambiguous := map[*torrent.Torrent]bool{}
	var smu sync.Mutex
	trkN := 0
	addedTrk := map[string][]string{} // id -> tracker URLs whose AddTracker returned nil

	// each op is logged twice (invoke, return) so that event sequence numbers order the history
	doOp := func(client int, op ROp) {
		in := regIn{Kind: op.Kind, ID: op.ID, Meta: op.Meta}
		switch op.Kind {
		case "add", "addm":
			call := stamp(fmt.Sprintf("c%d invoke %s id=%q meta=%d", client, op.Kind, op.ID, op.Meta))
			var t *torrent.Torrent
			var aerr error
			node.In(func() {
				opt := &torrent.AddTorrentOptions{ID: op.ID, Stopped: true}
				switch {
				case op.Meta < 0:
					t, aerr = node.Sess.AddTorrent(bytes.NewReader([]byte("d4:infod6:lengthi-5e4:name1:x12:piece lengthi0eee")), opt)
				case op.Kind == "addm":
					T := Ts[op.Meta%len(Ts)]
					t, aerr = node.Sess.AddURI(buildMagnet(T.InfoHash, false, T.Name, T.Trackers, nil), opt)
				default:
					t, aerr = node.Sess.AddTorrent(bytes.NewReader(Ts[op.Meta%len(Ts)].MetaBytes), opt)
				}
			})
			out := regOut{Err: aerr != nil}
			if t != nil {
				out.ID, out.Port = t.ID(), t.Port()
			}
			simrt.Logf("c%d return %s err=%v id=%q port=%d", client, op.Kind, aerr, out.ID, out.Port)
			record(client, in, call, out)
		case "remove":
			call := stamp(fmt.Sprintf("c%d invoke remove %q", client, op.ID))
			var rerr error
			node.In(func() { rerr = node.Sess.RemoveTorrent(op.ID, op.Keep) })
			smu.Lock()
			delete(addedTrk, op.ID)
			smu.Unlock()
			simrt.Logf("c%d return remove err=%v", client, rerr)
			record(client, in, call, regOut{Err: rerr != nil})
		case "list":
			call := stamp(fmt.Sprintf("c%d invoke list", client))
			var ids []string
			node.In(func() {
				for _, t := range node.Sess.ListTorrents() {
					ids = append(ids, t.ID())
				}
			})
			sort.Strings(ids)
			simrt.Logf("c%d return list %v", client, ids)
			record(client, in, call, regOut{IDs: strings.Join(ids, ",")})
		case "get":
			call := stamp(fmt.Sprintf("c%d invoke get %q", client, op.ID))
			var t *torrent.Torrent
			node.In(func() { t = node.Sess.GetTorrent(op.ID) })
			simrt.Logf("c%d return get %v", client, t != nil)
			record(client, in, call, regOut{Exist: t != nil})
		case "start", "stop", "addtracker":
			var t *torrent.Torrent
			node.In(func() { t = node.Sess.GetTorrent(op.ID) })
			if t == nil {
				return
			}
			// concurrent Start/Stop of one torrent: the order in which rain applies them is not
			// the order in which the calls return, so the expected flag is unknown until a
			// start/stop of that torrent runs alone again
			track := op.Kind == "start" || op.Kind == "stop"
			alone := false
			var g0 int
			if track {
				smu.Lock()
				alone = inflight[t] == 0
				inflight[t]++
				opGen[t]++
				g0 = opGen[t]
				smu.Unlock()
			}
			var cerr error
			node.In(func() {
				switch op.Kind {
				case "start":
					cerr = t.Start()
				case "stop":
					cerr = t.Stop()
				case "addtracker":
					// a URL of its own for every call: concurrent additions must all survive
					smu.Lock()
					trkN++
					u := fmt.Sprintf("http://10.9.9.%d:6969/extra%d", 1+client, trkN)
					smu.Unlock()
					cerr = t.AddTracker(u)
					if cerr == nil && node.Sess.GetTorrent(op.ID) == t {
						smu.Lock()
						addedTrk[op.ID] = append(addedTrk[op.ID], u)
						smu.Unlock()
					}
				}
			})
			if track {
				smu.Lock()
				inflight[t]--
				if alone && opGen[t] == g0 {
					// nothing else touched the flag of this torrent while we ran
					if cerr == nil {
						started[t] = op.Kind == "start"
					}
					delete(ambiguous, t)
				} else {
					ambiguous[t] = true
				}
				smu.Unlock()
			}
		case "stats":
			node.In(func() { node.Sess.Stats() })
		}
	}

	unloadable := map[string]bool{} // records that a later run refused to load
	quiescent := func(when string) map[string]torSnap {
		// ids unique, ports unique and inside the range, free + owned = range, session == DB
		var ts []*torrent.Torrent
		node.In(func() { ts = node.Sess.ListTorrents() })
		ids := map[string]bool{}
		ports := map[int]string{}
		snaps := map[string]torSnap{}
		for _, t := range ts {
			if ids[t.ID()] {
				simrt.Violate("C14", "ids.duplicate", "%s: torrent id %q listed twice", when, t.ID())
			}
			ids[t.ID()] = true
			var g *torrent.Torrent
			node.In(func() { g = node.Sess.GetTorrent(t.ID()) })
			if g != t {
				simrt.Violate("C14", "ids.lookup", "%s: GetTorrent(%q) does not return the listed torrent", when, t.ID())
			}
			p := t.Port()
			if other, dup := ports[p]; dup {
				simrt.Violate("C14", "ports.shared", "%s: torrents %q and %q share port %d", when, other, t.ID(), p)
			}
			ports[p] = t.ID()
			if p < int(node.Cfg.PortBegin) || p >= int(node.Cfg.PortEnd) {
				simrt.Violate("C14", "ports.range", "%s: torrent %q has port %d outside [%d,%d)", when, t.ID(), p, node.Cfg.PortBegin, node.Cfg.PortEnd)
			}
			var st torrent.Stats
			var trs []torrent.Tracker
			var wss []torrent.Webseed
			node.In(func() { st = t.Stats(); trs = t.Trackers(); wss = t.Webseeds() })
			var tu, wu []string
			for _, x := range trs {
				tu = append(tu, x.URL)
			}
			for _, x := range wss {
				wu = append(wu, x.URL)
			}
			sort.Strings(wu)
			sort.Strings(tu) // tiers added concurrently may be listed in either order
			ih := t.InfoHash()
			snaps[t.ID()] = torSnap{ID: t.ID(), Name: t.Name(), InfoHash: ih.String(), Port: p, AddedAt: t.AddedAt(), Webseeds: strings.Join(wu, ","), Trackers: strings.Join(tu, ","),
				HasInfo: st.Pieces.Total > 0, Pieces: st.Pieces.Total, Bytes: st.Bytes.Total, Down: st.Bytes.Downloaded, Up: st.Bytes.Uploaded, Started: st.Status != torrent.Stopped && st.Status != torrent.Stopping}
		}
		var ss torrent.SessionStats
		node.In(func() { ss = node.Sess.Stats() })
		total := int(node.Cfg.PortEnd) - int(node.Cfg.PortBegin)
		if ss.PortsAvailable+len(ts) != total {
			simrt.Violate("C14", "ports.conservation", "%s: %d ports free + %d torrents != %d ports configured (a port leaked or was released twice)", when, ss.PortsAvailable, len(ts), total)
		}
		// DB view
		recs, derr := ReadResume(node.CopyDB(fmt.Sprintf("q%d", len(env.nodes))))
		if derr != nil {
			simrt.Violate("C14", "db.read", "%s: resume database copy does not open: %v", when, derr)
			return snaps
		}
		for id := range recs {
			if !ids[id] && !unloadable[id] {
				simrt.Violate("C14", "db.extra_record", "%s: resume database has a record for %q which is not in the session", when, id)
			}
		}
		for id := range ids {
			if _, ok := recs[id]; !ok {
				simrt.Violate("C14", "db.missing_record", "%s: torrent %q is in the session but not in the resume database", when, id)
			}
		}
		// every tracker whose addition was acknowledged is in the record (it is what a restart
		// brings back), also when several clients added trackers to one torrent at once
		smu.Lock()
		for id, urls := range addedTrk {
			rec, ok := recs[id]
			if !ok || !ids[id] {
				continue
			}
			var tiers [][]string
			_ = json.Unmarshal(rec["trackers"], &tiers)
			have := map[string]bool{}
			for _, tier := range tiers {
				for _, u := range tier {
					have[u] = true
				}
			}
			for _, u := range urls {
				if !have[u] {
					simrt.Violate("C14", "db.tracker_lost", "%s: AddTracker(%q) on torrent %q returned nil but the tracker is not in its resume record (%d tiers stored)", when, u, id, len(tiers))
					break
				}
			}
		}
		smu.Unlock()
		return snaps
	}

	// phases
	maxLen := 0
	for _, c := range plan.Clients {
		maxLen = max(maxLen, len(c))
	}
	phases := max(1, plan.Phases)
	per := (maxLen + phases - 1) / phases
	for ph := 0; ph < phases; ph++ {
		history = nil
		// the model starts from the state at the phase start
		var live []*torrent.Torrent
		node.In(func() { live = node.Sess.ListTorrents() })
		initState := regState{m: map[string]int{}, n: plan.Ports}
		for _, t := range live {
			initState.m[t.ID()] = t.Port()
		}
		var wg sync.WaitGroup
		for ci, script := range plan.Clients {
			lo, hi := ph*per, min((ph+1)*per, len(script))
			if lo >= hi {
				continue
			}
			wg.Add(1)
			go func(ci int, ops []ROp) {
				defer wg.Done()
				for _, op := range ops {
					if op.Gap > 0 {
						time.Sleep(op.Gap)
					}
					doOp(ci, op)
				}
			}(ci, script[lo:hi])
		}
		wg.Wait()
		time.Sleep(3 * time.Second) // let stops finish
		// linearizability of this phase's history against the registry model
		model := regModel
		model.Init = func() interface{} { return cloneReg(initState) }
		if len(history) > 0 && len(history) <= 60 {
			res := porcupine.CheckOperationsTimeout(model, history, 20*time.Second)
			switch res {
			case porcupine.Illegal:
				var lines []string
				for _, op := range history {
					lines = append(lines, fmt.Sprintf("c%d [%d,%d] %+v -> %+v", op.ClientId, op.Call, op.Return, op.Input, op.Output))
				}
				simrt.Violate("C14", "history.not_linearizable", "phase %d: the recorded add/remove/list history has no sequential explanation by a registry with unique ids and %d ports: %s", ph, plan.Ports, strings.Join(lines, " | "))
			case porcupine.Unknown:
				simrt.Count("probe.registry.porcupine_unknown", 1)
			default:
				simrt.Count("probe.registry.porcupine_ok", 1)
			}
		}
		before := quiescent(fmt.Sprintf("after phase %d", ph))
		// compaction: the compacted database must load the same torrents (those with metadata)
		if plan.Compact && ph == phases-1 {
			out := fmt.Sprintf("%s/compact-%d.db", env.TmpDir, ph)
			var cerr error
			node.In(func() { cerr = node.Sess.CompactDatabase(out) })
			if cerr != nil {
				simrt.Violate("C14", "compact.error", "CompactDatabase failed: %v", cerr)
			} else {
				n2, err2 := env.StartNode(env.NewHost(fmt.Sprintf("cmp%d", ph), "sut"), fs.Clone("cmp", env.R.Uint64()), out, k)
				if err2 != nil {
					simrt.Violate("C14", "compact.reopen", "the compacted database does not open: %v", err2)
				} else {
					var ts2 []*torrent.Torrent
					n2.In(func() { ts2 = n2.Sess.ListTorrents() })
					got := map[string]*torrent.Torrent{}
					for _, t := range ts2 {
						got[t.ID()] = t
					}
					for id, b := range before {
						if !b.HasInfo {
							continue
						}
						t2 := got[id]
						if t2 == nil {
							simrt.Violate("C14", "compact.lost_torrent", "torrent %q (with metadata) is missing from the compacted database", id)
							continue
						}
						ih := t2.InfoHash()
						if ih.String() != b.InfoHash || t2.Name() != b.Name || t2.Port() != b.Port {
							simrt.Violate("C14", "compact.differs", "torrent %q loads differently from the compacted database: %s/%s/%d vs %s/%s/%d", id, ih.String(), t2.Name(), t2.Port(), b.InfoHash, b.Name, b.Port)
						}
					}
					n2.Close()
				}
				os.Remove(out)
			}
		}
		// restart: close and reopen on the same DB and disk
		if ph < phases-1 || phases == 1 {
			var live []*torrent.Torrent
			node.In(func() { live = node.Sess.ListTorrents() })
			smu.Lock()
			wasStarted := map[string]bool{}
			wasAmbiguous := map[string]bool{}
			for _, t := range live {
				wasStarted[t.ID()] = started[t]
				wasAmbiguous[t.ID()] = ambiguous[t]
			}
			smu.Unlock()
			cerr := node.Close()
			if cerr != nil {
				simrt.Violate("C14", "close.error", "Session.Close failed: %v", cerr)
			}
			if plan.LowerMaxPieces > 0 && ph == 0 {
				k.MaxPieces = plan.LowerMaxPieces
				for id, b := range before {
					if b.Pieces > plan.LowerMaxPieces {
						unloadable[id] = true
						simrt.Count("fault.registry.unloadable_record", 1)
						// the id is free again in the coming phases: nothing known about the
						// refused torrent applies to a torrent added under it later
						smu.Lock()
						delete(addedTrk, id)
						smu.Unlock()
					}
				}
			}
			node2, rerr := env.StartNode(host, fs, node.DBPath, k)
			if rerr != nil {
				simrt.Violate("C14", "restart.error", "the session does not restart on its own database: %v", rerr)
				return
			}
			node = node2
			time.Sleep(500 * time.Millisecond)
			after := quiescent(fmt.Sprintf("after restart %d", ph))
			for id, b := range before {
				a, ok := after[id]
				if !ok && unloadable[id] {
					continue
				}
				if !ok {
					simrt.Violate("C14", "restart.lost_torrent", "torrent %q disappeared across a restart", id)
					continue
				}
				if a.InfoHash != b.InfoHash || a.Name != b.Name || a.Port != b.Port || a.AddedAt.Unix() != b.AddedAt.Unix() || a.Webseeds != b.Webseeds || a.Pieces != b.Pieces || a.Bytes != b.Bytes {
					simrt.Violate("C14", "restart.differs", "torrent %q differs after restart: before %+v after %+v", id, b, a)
				}
				if a.Down != b.Down || a.Up != b.Up {
					simrt.Violate("C14", "restart.counters", "torrent %q transfer counters differ after restart: before down=%d up=%d, after down=%d up=%d", id, b.Down, b.Up, a.Down, a.Up)
				}
				if wasAmbiguous[id] {
					simrt.Count("probe.registry.started_flag_ambiguous", 1)
				} else if wasStarted[id] != a.Started {
					simrt.Violate("C14", "restart.started_flag", "torrent %q: started=%v before the restart, running=%v after it", id, wasStarted[id], a.Started)
				}
			}
			for id := range after {
				if _, ok := before[id]; !ok {
					simrt.Violate("C14", "restart.extra_torrent", "torrent %q appeared across a restart", id)
				}
			}
			// the new session has new torrent objects: what is known about each id moves over
			var reloaded []*torrent.Torrent
			node.In(func() { reloaded = node.Sess.ListTorrents() })
			smu.Lock()
			for _, t := range reloaded {
				if a, ok := after[t.ID()]; ok {
					started[t] = a.Started
					if wasAmbiguous[t.ID()] {
						ambiguous[t] = true
					}
				}
			}
			smu.Unlock()
		}
	}
	// resume record round trip with generated field values
	specRoundTrip(env, plan.SpecSeed)
	env.NonTriv = true
	env.Stats["ops"] = maxLen * len(plan.Clients)
	simrt.Count("fault.sched.yield", simrt.Yields())
	env.SigAdd("clients=%d ports=%d phases=%d", len(plan.Clients), plan.Ports, phases)
	simrt.FreezeTrace()
	node.Close()
}

// specRoundTrip: every value written through the resumer reads back equal.
func specRoundTrip(env *Env, seed uint64) {
	r := simrt.NewRand(seed)
	path := fmt.Sprintf("%s/spec-%d.db", env.TmpDir, seed%1000)
	db, err := bbolt.Open(path, 0o600, nil)
	if err != nil {
		panic("harness: " + err.Error())
	}
	defer os.Remove(path)
	defer db.Close()
	res, err := boltdbresumer.New(db, []byte("torrents"))
	if err != nil {
		panic("harness: " + err.Error())
	}
	str := func() string {
		return simrt.Pick(r, []string{"", "a", "na\x00me", "ünï©ode ☃", strings.Repeat("x", 300), "with \"quotes\" and \\ slashes", "line\nbreak"})
	}
	for i := 0; i < 20; i++ {
		s := &boltdbresumer.Spec{
			InfoHash: r.Bytes(20), Port: r.Range(0, 65535), Name: str(),
			Info: r.Bytes(r.Range(0, 400)), Bitfield: r.Bytes(r.Range(0, 40)),
			AddedAt:         time.Unix(int64(r.Range(0, 1<<31)), int64(r.Range(0, 999999999))).UTC(),
			BytesDownloaded: int64(r.Uint64() >> 1), BytesUploaded: int64(r.Uint64() >> 1), BytesWasted: int64(r.Uint64() >> 1),
			SeededFor: time.Duration(r.Uint64() >> 2), Started: r.Bool(), StopAfterDownload: r.Bool(), StopAfterMetadata: r.Bool(), CompleteCmdRun: r.Bool(), Sequential: r.Bool(),
		}
		for j := 0; j < r.Range(0, 3); j++ {
			var t []string
			for q := 0; q < r.Range(1, 3); q++ {
				t = append(t, "http://t/"+str())
			}
			s.Trackers = append(s.Trackers, t)
		}
		for j := 0; j < r.Range(0, 3); j++ {
			s.URLList = append(s.URLList, "http://w/"+str())
			s.FixedPeers = append(s.FixedPeers, fmt.Sprintf("1.2.3.%d:%d", j, r.Range(1, 65535)))
		}
		id := fmt.Sprintf("spec%d", i)
		if err := res.Write(id, s); err != nil {
			simrt.Violate("C14", "spec.write", "resumer.Write failed: %v", err)
			return
		}
		got, err := res.Read(id)
		if err != nil {
			simrt.Violate("C14", "spec.read", "resumer.Read failed for a record just written: %v", err)
			return
		}
		norm := func(x *boltdbresumer.Spec) boltdbresumer.Spec {
			c := *x
			c.Version = 0
			c.AddedAt = c.AddedAt.UTC()
			if len(c.Trackers) == 0 {
				c.Trackers = nil
			}
			if len(c.URLList) == 0 {
				c.URLList = nil
			}
			if len(c.FixedPeers) == 0 {
				c.FixedPeers = nil
			}
			if len(c.Info) == 0 {
				c.Info = nil
			}
			if len(c.Bitfield) == 0 {
				c.Bitfield = nil
			}
			return c
		}
		a, b := norm(s), norm(got)
		if a.AddedAt.Unix() != b.AddedAt.Unix() {
			simrt.Violate("C14", "spec.roundtrip", "AddedAt written %v read %v", a.AddedAt, b.AddedAt)
		}
		a.AddedAt, b.AddedAt = time.Time{}, time.Time{}
		if !reflect.DeepEqual(a, b) {
			simrt.Violate("C14", "spec.roundtrip", "resume record differs after write/read: wrote %+v read %+v", a, b)
			return
		}
	}
	simrt.Count("probe.registry.spec_roundtrips", 20)
}

func init() {
	Register(&Scenario{Name: "registry", Gen: func(r *simrt.Rand, tier string, p *Plan) {
		rp := &RegistryPlan{Ports: r.Range(2, 5), Metas: r.Range(2, 5), Phases: r.Range(1, 3), Compact: r.Chance(0.5), SpecSeed: r.Uint64(), YieldP: simrt.Pick(r, []float64{0, 0.1, 0.3, 0.6, 0.9})}
		if r.Chance(0.3) {
			rp.LowerMaxPieces = uint32(r.Range(1, 2))
		}
		rp.K = Knobs{DisableOutgoingEncryption: true}
		nc := r.Range(1, 4)
		ids := []string{"a", "b", "c", ""}
		n := r.Range(3, 8)
		if tier == "thorough" {
			n = r.Range(3, 14)
		}
		for c := 0; c < nc; c++ {
			var ops []ROp
			for i := 0; i < n; i++ {
				op := ROp{Gap: simrt.Pick(r, []time.Duration{0, 0, time.Millisecond, 50 * time.Millisecond, 2 * time.Second}), Kind: simrt.Pick(r, []string{"add", "add", "add", "addm", "remove", "remove", "start", "stop", "addtracker", "list", "get", "stats"}), ID: simrt.Pick(r, ids), Meta: r.Intn(rp.Metas), Keep: r.Bool()}
				if op.Kind != "add" && op.Kind != "addm" && op.ID == "" {
					op.ID = "a"
				}
				if (op.Kind == "add" || op.Kind == "addm") && r.Chance(0.1) {
					op.Meta = -1
				}
				ops = append(ops, op)
			}
			rp.Clients = append(rp.Clients, ops)
		}
		if r.Chance(0.5) { // contention burst: everybody adds the same id at the same instant
			id := simrt.Pick(r, ids)
			for c := range rp.Clients {
				rp.Clients[c][0] = ROp{Kind: simrt.Pick(r, []string{"add", "addm"}), ID: id, Meta: r.Intn(rp.Metas)}
			}
		}
		p.Registry = rp
	}, Run: func(env *Env, p *Plan) { RunRegistry(env, p.Registry) }})
}
