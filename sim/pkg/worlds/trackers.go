package worlds

import (
	"context"
	"encoding/binary"
	"fmt"
	"net"
	"net/http"
	"net/url"
	"os"
	"strconv"
	"strings"
	"sync"
	"time"

	"github.com/cenkalti/rain/v2/internal/zzsim/gen"
	"github.com/cenkalti/rain/v2/internal/zzsim/simnet"
	"github.com/cenkalti/rain/v2/internal/zzsim/simrt"
)

type simnetIP = net.IP

type connKey struct{}

func parseIP(s string) net.IP { return net.ParseIP(s).To4() }

// Reply is one scripted tracker reply.
type Reply struct {
	// Kind: ok fail http4xx http5xx garbage oversize noreply (udp: wrongtx short error dup stray)
	Kind        string        `json:"kind"`
	Interval    *int64        `json:"interval,omitempty"`     // nil = key absent (http) / 0 (udp)
	MinInterval *int64        `json:"min_interval,omitempty"` // http only
	RetryIn     string        `json:"retry_in,omitempty"`
	Delay       time.Duration `json:"delay,omitempty"`
	DictPeers   bool          `json:"dict_peers,omitempty"`
}

// Announce is one recorded announce.
type Announce struct {
	At              time.Duration
	Proto           string
	InfoHash        [20]byte
	PeerID          [20]byte
	Port            int
	Uploaded        int64
	Downloaded      int64
	Left            int64
	Event           string
	NumWant         int
	Key             string
	UserAgent       string
	From            string
	Reply           string // kind of the reply given
	ReplyOK         bool
	ConsumedOfReply int64  // oversize replies: bytes of this reply the client actually read
	// NearTimeout: the client left an unanswered request about when its own time-out was due: its
	// time-out (a failure) or a cancel just before it; what it does next tells which
	NearTimeout bool
	RetryIn         string // "retry in" value sent with a failure reply
	Ambiguous       bool   // cannot tell a client-side cancel from a time-out
	Cancelled       bool   // the client abandoned the request well before its own time-out (a cancel, not a failure)
	Interval        int64
	MinInt          int64
	RawQuery        string
	TxID            uint32
	gone            bool
}

// TrackerActor is a scripted HTTP tracker (and, with UDP=true, a BEP 15 UDP tracker).
type TrackerActor struct {
	Host    *simrt.Host
	Name    string
	UDP     bool
	Delay   time.Duration
	Script  []Reply // replies in order; the last one repeats
	Peers   []string
	URL     string
	mu      sync.Mutex
	Log     []Announce
	n       int
	rng     *simrt.Rand
	srv     *http.Server
	uc      *simnet.UDPConn
	conns   map[uint64]time.Duration
	txReply map[string]Reply
	OnAnn   func(a *Announce)
	// ClientTimeout is the SUT's HTTP tracker time-out (to tell a cancel from a time-out).
	ClientTimeout time.Duration
	// RespLimit is the SUT's maximum HTTP tracker response size (0 = unknown): a client that
	// stops reading an oversize reply before that many bytes gave up for another reason.
	RespLimit int64
	LatSlack  time.Duration
	stopped   bool
}

func (t *TrackerActor) nextReply() Reply {
	t.mu.Lock()
	defer t.mu.Unlock()
	if len(t.Script) == 0 {
		iv := int64(1800)
		return Reply{Kind: "ok", Interval: &iv}
	}
	i := t.n
	if i >= len(t.Script) {
		i = len(t.Script) - 1
	}
	t.n++
	return t.Script[i]
}

func (t *TrackerActor) record(a Announce) {
	if os.Getenv("SIM_DEBUGSPACING") != "" {
		simrt.Logf("record debug %s proto=%s ok=%v to=%v gone=%v dt=%v", t.Name, a.Proto, a.ReplyOK, t.ClientTimeout, a.gone, simrt.Now()-a.At)
	}
	if a.Proto == "http" && !a.ReplyOK && t.ClientTimeout > 0 && a.gone {
		dt := simrt.Now() - a.At
		switch {
		case dt+t.LatSlack+300*time.Millisecond < t.ClientTimeout:
			a.Cancelled = true // the client gave up long before its own time-out: a cancel
			a.Reply += "(cancelled)"
		case dt < t.ClientTimeout+300*time.Millisecond:
			// could be the client's time-out (a failure) or a cancel just before it
			a.Ambiguous = a.Reply == "noreply" || strings.Contains(a.Reply, "client gone")
			a.NearTimeout = a.Ambiguous
		}
	}
	if a.Proto == "http" && a.ReplyOK && t.ClientTimeout > 0 && simrt.Now()-a.At+t.LatSlack+300*time.Millisecond >= t.ClientTimeout {
		// The reply was written close to the client's own time-out: it may have expired at
		// the client while the bytes were on their way (then the client rightly retries).
		a.Ambiguous = true
		a.Reply += "(near client time-out)"
	}
	t.mu.Lock()
	t.Log = append(t.Log, a)
	t.mu.Unlock()
	simrt.Logf("tracker %s: announce %s event=%q port=%d left=%d key=%s tx=%d reply=%s", t.Host.Name, a.Proto, a.Event, a.Port, a.Left, a.Key, a.TxID, a.Reply)
	if t.OnAnn != nil {
		t.OnAnn(&a)
	}
}

// Announces returns a copy of the log.
func (t *TrackerActor) Announces() []Announce {
	t.mu.Lock()
	defer t.mu.Unlock()
	return append([]Announce(nil), t.Log...)
}

func (t *TrackerActor) Start(seed uint64) {
	t.rng = simrt.NewRand(seed)
	t.conns = map[uint64]time.Duration{}
	t.txReply = map[string]Reply{}
	if t.Name == "" {
		t.Name = t.Host.Name
	}
	prev := simrt.Cur()
	simrt.Enter(t.Host)
	defer simrt.Enter(prev)
	if t.UDP {
		uc, err := simnet.ListenUDP("udp4", &net.UDPAddr{Port: 6969})
		if err != nil {
			panic("harness: udp tracker listen: " + err.Error())
		}
		t.uc = uc
		t.URL = "udp://" + uc.LocalAddr().String() + "/announce"
		simrt.Go(t.Host, t.udpLoop)
		return
	}
	ln, err := simnet.Listen("tcp", "0.0.0.0:6969")
	if err != nil {
		panic("harness: tracker listen: " + err.Error())
	}
	t.URL = "http://" + ln.Addr().String() + "/announce"
	t.srv = &http.Server{Handler: http.HandlerFunc(t.handleHTTP), ConnContext: func(ctx context.Context, c net.Conn) context.Context {
		return context.WithValue(ctx, connKey{}, c)
	}}
	simrt.Go(t.Host, func() { t.srv.Serve(ln) })
}

func (t *TrackerActor) Stop() {
	t.mu.Lock()
	t.stopped = true
	t.mu.Unlock()
	if t.srv != nil {
		t.srv.Close()
	}
	if t.uc != nil {
		t.uc.Close()
	}
}

func compactPeers(addrs []string) []byte {
	var b []byte
	for _, a := range addrs {
		ta, err := net.ResolveTCPAddr("tcp", a)
		if err != nil || ta.IP.To4() == nil {
			continue
		}
		b = append(b, ta.IP.To4()...)
		b = append(b, byte(ta.Port>>8), byte(ta.Port))
	}
	return b
}

func (t *TrackerActor) handleHTTP(rw http.ResponseWriter, r *http.Request) {
	q, _ := url.ParseQuery(r.URL.RawQuery)
	a := Announce{At: simrt.Now(), Proto: "http", Event: q.Get("event"), Key: q.Get("key"), UserAgent: r.Header.Get("User-Agent"), From: r.RemoteAddr, RawQuery: r.URL.RawQuery}
	copy(a.InfoHash[:], q.Get("info_hash"))
	copy(a.PeerID[:], q.Get("peer_id"))
	a.Port, _ = strconv.Atoi(q.Get("port"))
	a.Uploaded, _ = strconv.ParseInt(q.Get("uploaded"), 10, 64)
	a.Downloaded, _ = strconv.ParseInt(q.Get("downloaded"), 10, 64)
	a.Left, _ = strconv.ParseInt(q.Get("left"), 10, 64)
	a.NumWant, _ = strconv.Atoi(q.Get("numwant"))
	rep := t.nextReply()
	a.Reply = rep.Kind
	d := t.Delay + rep.Delay
	if d > 0 {
		select {
		case <-time.After(d):
		case <-r.Context().Done():
			a.Reply += "(client gone)"
			a.gone = true
			t.record(a)
			return
		}
	}
	gone := func() bool { return r.Context().Err() != nil }
	switch rep.Kind {
	case "ok":
		m := map[string]any{"complete": 1, "incomplete": 1}
		if rep.Interval != nil {
			m["interval"] = *rep.Interval
			a.Interval = *rep.Interval
		}
		if rep.MinInterval != nil {
			m["min interval"] = *rep.MinInterval
			a.MinInt = *rep.MinInterval
		}
		if rep.DictPeers {
			var l []any
			for _, p := range t.Peers {
				h, ps, _ := net.SplitHostPort(p)
				pn, _ := strconv.Atoi(ps)
				l = append(l, map[string]any{"ip": h, "port": pn, "peer id": "-XX0000-000000000000"})
			}
			m["peers"] = l
		} else {
			m["peers"] = compactPeers(t.Peers)
		}
		_, werr := rw.Write(gen.Bencode(m))
		if f, ok := rw.(http.Flusher); ok {
			f.Flush()
		}
		a.ReplyOK = werr == nil && !gone()
		if !a.ReplyOK {
			a.Reply += "(client gone)"
			a.gone = true
		}
		t.record(a)
	case "fail":
		m := map[string]any{"failure reason": "scripted failure"}
		if rep.RetryIn != "" {
			m["retry in"] = rep.RetryIn
			a.RetryIn = rep.RetryIn
		}
		rw.Write(gen.Bencode(m))
		t.record(a)
	case "http4xx":
		http.Error(rw, "nope", 403)
		t.record(a)
	case "http5xx":
		http.Error(rw, "boom", 503)
		t.record(a)
	case "garbage":
		rw.Write(t.rng.Bytes(t.rng.Range(0, 300)))
		t.record(a)
	case "oversize":
		// a body far beyond any sane response limit, streamed
		chunk := make([]byte, 64<<10)
		rw.Header().Set("Content-Type", "text/plain")
		var pair *simnet.Pair
		side := 0
		if c, ok := r.Context().Value(connKey{}).(interface {
			SimPair() (*simnet.Pair, int)
		}); ok {
			pair, side = c.SimPair()
		}
		before := int64(0)
		if pair != nil {
			before = pair.Consumed(side)
		}
		for i := 0; i < 96; i++ {
			if _, err := rw.Write(chunk); err != nil {
				break
			}
		}
		endAt := simrt.Now()
		if pair != nil {
			time.Sleep(2 * time.Second)
			a.ConsumedOfReply = pair.Consumed(side) - before
			if t.RespLimit > 0 && a.ConsumedOfReply < t.RespLimit && t.ClientTimeout > 0 {
				// The client went away before it had read as much as its own limit: not the
				// oversize failure. A cancel (it had something else to say) or its time-out.
				dt := endAt - a.At
				switch {
				case dt+t.LatSlack+300*time.Millisecond < t.ClientTimeout:
					a.Cancelled = true
					a.Reply += "(cancelled)"
				default:
					a.Ambiguous = true
					a.Reply += "(client gone)"
				}
			}
		}
		t.record(a)
	case "noreply":
		select {
		case <-r.Context().Done():
			a.gone = true
		case <-time.After(time.Hour):
		}
		t.record(a)
	default:
		http.Error(rw, "bad script", 500)
		t.record(a)
	}
}

// ---- UDP (BEP 15) ----------------------------------------------------------------

const udpMagic = 0x41727101980

func (t *TrackerActor) udpLoop() {
	buf := make([]byte, 2048)
	for {
		n, from, err := t.uc.ReadFromUDP(buf)
		if err != nil {
			return
		}
		pkt := append([]byte(nil), buf[:n]...)
		if len(pkt) < 16 {
			simrt.Violate("C15", "udp.short_request", "UDP tracker request of %d bytes", len(pkt))
			continue
		}
		connID := binary.BigEndian.Uint64(pkt[0:8])
		action := binary.BigEndian.Uint32(pkt[8:12])
		tx := binary.BigEndian.Uint32(pkt[12:16])
		switch action {
		case 0: // connect
			if connID != udpMagic {
				simrt.Violate("C15", "udp.connect_magic", "connect request with connection id %#x", connID)
			}
			id := t.rng.Uint64() | 1
			t.mu.Lock()
			t.conns[id] = simrt.Now()
			t.mu.Unlock()
			out := make([]byte, 16)
			binary.BigEndian.PutUint32(out[0:4], 0)
			binary.BigEndian.PutUint32(out[4:8], tx)
			binary.BigEndian.PutUint64(out[8:16], id)
			t.sendUDP(out, from, t.Delay)
		case 1: // announce
			if len(pkt) < 98 {
				simrt.Violate("C15", "udp.short_announce", "announce request of %d bytes (want >= 98)", len(pkt))
				continue
			}
			t.mu.Lock()
			at, known := t.conns[connID]
			t.mu.Unlock()
			a := Announce{At: simrt.Now(), Proto: "udp", From: from.String(), TxID: tx}
			copy(a.InfoHash[:], pkt[16:36])
			copy(a.PeerID[:], pkt[36:56])
			a.Downloaded = int64(binary.BigEndian.Uint64(pkt[56:64]))
			a.Left = int64(binary.BigEndian.Uint64(pkt[64:72]))
			a.Uploaded = int64(binary.BigEndian.Uint64(pkt[72:80]))
			ev := binary.BigEndian.Uint32(pkt[80:84])
			a.Event = []string{"", "completed", "started", "stopped"}[ev%4]
			a.Key = fmt.Sprintf("%08x", binary.BigEndian.Uint32(pkt[88:92]))
			a.NumWant = int(int32(binary.BigEndian.Uint32(pkt[92:96])))
			a.Port = int(binary.BigEndian.Uint16(pkt[96:98]))
			if !known || simrt.Now()-at > 2*time.Minute {
				a.Reply = "stale-connection-id"
				t.record(a)
				// BEP 15: an expired/unknown connection id gets an error
				t.sendUDP(udpError(tx, "connection id expired"), from, t.Delay)
				continue
			}
			txk := fmt.Sprintf("%s/%d", from.String(), tx)
			t.mu.Lock()
			rep, again := t.txReply[txk]
			t.mu.Unlock()
			if !again {
				rep = t.nextReply()
				t.mu.Lock()
				t.txReply[txk] = rep
				t.mu.Unlock()
			}
			a.Reply = rep.Kind
			d := t.Delay + rep.Delay
			mk := func(txid uint32, interval int64) []byte {
				out := make([]byte, 20)
				binary.BigEndian.PutUint32(out[0:4], 1)
				binary.BigEndian.PutUint32(out[4:8], txid)
				binary.BigEndian.PutUint32(out[8:12], uint32(int32(interval)))
				binary.BigEndian.PutUint32(out[12:16], 1)
				binary.BigEndian.PutUint32(out[16:20], 1)
				peers := t.Peers
				if txid != tx {
					// a reply under another transaction id carries an address of its own:
					// if the client ever dials it, it accepted the reply
					peers = []string{"10.251.0.1:7002"}
				}
				return append(out, compactPeers(peers)...)
			}
			iv := int64(0)
			if rep.Interval != nil {
				iv = *rep.Interval
			}
			switch rep.Kind {
			case "ok":
				a.ReplyOK = true
				a.Interval = iv
				t.record(a)
				t.sendUDP(mk(tx, iv), from, d)
			case "dup":
				a.ReplyOK = true
				a.Interval = iv
				t.record(a)
				t.sendUDP(mk(tx, iv), from, d)
				t.sendUDP(mk(tx, iv), from, d+time.Millisecond)
			case "stray":
				// the valid reply with a datagram of another transaction right behind it (or
				// right before it): both are in the client's socket queue at the same time
				a.ReplyOK = true
				a.Interval = iv
				t.record(a)
				if t.rng.Chance(0.3) {
					t.sendUDP(mk(tx^0x5a5a5a5a, iv), from, d)
				}
				t.sendUDP(mk(tx, iv), from, d)
				t.sendUDP(mk(tx^0x5a5a5a5a, iv), from, d)
				if t.rng.Chance(0.5) {
					t.sendUDP(mk(tx+1, iv), from, d)
				}
			case "wrongtx":
				t.record(a)
				t.sendUDP(mk(tx+1, iv), from, d)
			case "short":
				t.record(a)
				t.sendUDP(mk(tx, iv)[:t.rng.Range(8, 19)], from, d)
			case "fail", "error":
				t.record(a)
				t.sendUDP(udpError(tx, "scripted failure"), from, d)
			case "garbage":
				t.record(a)
				g := t.rng.Bytes(t.rng.Range(8, 200))
				binary.BigEndian.PutUint32(g[4:8], tx)
				t.sendUDP(g, from, d)
			case "noreply":
				t.record(a)
			default:
				t.record(a)
			}
		default:
			simrt.Violate("C15", "udp.action", "UDP tracker request with action %d", action)
		}
	}
}

func udpError(tx uint32, msg string) []byte {
	out := make([]byte, 8)
	binary.BigEndian.PutUint32(out[0:4], 3)
	binary.BigEndian.PutUint32(out[4:8], tx)
	return append(out, gen.Bencode(map[string]any{"failure reason": msg})...)
}

func (t *TrackerActor) sendUDP(b []byte, to *net.UDPAddr, d time.Duration) {
	if d <= 0 {
		t.uc.WriteToUDP(b, to)
		return
	}
	time.AfterFunc(d, func() { t.uc.WriteToUDP(b, to) })
}
