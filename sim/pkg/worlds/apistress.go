package worlds

import (
	"bytes"
	"fmt"
	"sync"
	"time"

	"github.com/cenkalti/rain/v2/internal/zzsim/gen"
	"github.com/cenkalti/rain/v2/internal/zzsim/simnet"
	"github.com/cenkalti/rain/v2/internal/zzsim/simrt"
	"github.com/cenkalti/rain/v2/rainrpc"
	"github.com/cenkalti/rain/v2/torrent"
)

// APISpec: concurrent users of the public API and of the RPC interface while the torrent of the
// transfer world is moving data (C20: data races are collected by the race build of the
// simulator, calls that never return by the watchdog below).
type APISpec struct {
	Clients int              `json:"clients"`
	Ops     int              `json:"ops"`
	RPC     bool             `json:"rpc,omitempty"`
	Heavy   bool             `json:"heavy,omitempty"` // start/stop/verify/remove/compact in the mix
	Gap     [2]time.Duration `json:"gap"`
}

type apiClient struct {
	mu     sync.Mutex
	inCall string
	since  time.Duration
	calls  int
}

func (w *transferWorld) startAPIClients() []*apiClient {
	spec := w.plan.API
	sut := w.sut
	w.env.Net.SetDNS("peer.example", simnet.DNSEntry{IPs: nil})
	second := gen.Build(gen.Layout{Name: "second", PieceLen: 16384, Single: true, Files: []gen.FileSpec{{Path: []string{"second"}, Length: 40000}}, DataSeed: 77})
	var cs []*apiClient
	for ci := 0; ci < spec.Clients; ci++ {
		c := &apiClient{}
		cs = append(cs, c)
		r := w.env.R.Fork()
		useRPC := spec.RPC && ci%2 == 1
		go func(ci int) {
			simrt.Enter(sut.Host)
			var rc *rainrpc.Client
			if useRPC {
				rc = rainrpc.NewClient("http://127.0.0.1:7246")
				rc.SetTimeout(30 * time.Second)
			}
			call := func(name string, f func()) {
				c.mu.Lock()
				c.inCall, c.since = name, simrt.Now()
				c.mu.Unlock()
				f()
				c.mu.Lock()
				c.inCall = ""
				c.calls++
				c.mu.Unlock()
			}
			for k := 0; k < spec.Ops; k++ {
				time.Sleep(r.Dur(spec.Gap[0], spec.Gap[1]))
				t := w.tor
				n := 16
				if spec.Heavy {
					n = 24
				}
				op := r.Intn(n)
				if spec.Heavy && r.Chance(0.1) {
					op = 21 // verify: its completion handler is the busiest meeting point of locks
				}
				if rc != nil {
					switch op {
					case 0:
						call("rpc.GetTorrentStats", func() { rc.GetTorrentStats("tt") })
					case 1:
						call("rpc.GetTorrentPeers", func() { rc.GetTorrentPeers("tt") })
					case 2:
						call("rpc.GetTorrentTrackers", func() { rc.GetTorrentTrackers("tt") })
					case 3:
						call("rpc.GetTorrentWebseeds", func() { rc.GetTorrentWebseeds("tt") })
					case 4:
						call("rpc.GetTorrentFiles", func() { rc.GetTorrentFiles("tt") })
					case 5:
						call("rpc.GetTorrentFileStats", func() { rc.GetTorrentFileStats("tt") })
					case 6:
						call("rpc.GetSessionStats", func() { rc.GetSessionStats() })
					case 7:
						call("rpc.ListTorrents", func() { rc.ListTorrents() })
					case 8:
						call("rpc.AddPeer", func() { rc.AddPeer("tt", fmt.Sprintf("10.77.0.%d:6881", 1+r.Intn(200))) })
					case 9:
						call("rpc.AddTracker", func() { rc.AddTracker("tt", fmt.Sprintf("http://10.78.0.%d/announce", 1+r.Intn(5))) })
					case 10:
						call("rpc.AnnounceTorrent", func() { rc.AnnounceTorrent("tt") })
					case 11:
						call("rpc.GetMagnet", func() { rc.GetMagnet("tt") })
					case 12:
						call("rpc.GetTorrent", func() { rc.GetTorrent("tt") })
					case 13, 14, 15:
						call("rpc.ServerVersion", func() { rc.ServerVersion() })
					case 16:
						call("rpc.StopTorrent", func() { rc.StopTorrent("tt") })
					case 17, 18:
						call("rpc.StartTorrent", func() { rc.StartTorrent("tt") })
					case 19:
						call("rpc.AddTorrent+Remove", func() {
							if tt, err := rc.AddTorrent(bytes.NewReader(second.MetaBytes), &rainrpc.AddTorrentOptions{ID: fmt.Sprintf("s%d", ci)}); err == nil {
								rc.GetTorrentStats(tt.ID)
								rc.RemoveTorrent(tt.ID, false)
							}
						})
					case 20:
						call("rpc.StartAllTorrents", func() { rc.StartAllTorrents() })
					case 21:
						call("rpc.VerifyTorrent", func() { rc.VerifyTorrent("tt") })
					default:
						call("rpc.GetTorrentStats", func() { rc.GetTorrentStats("tt") })
					}
					continue
				}
				switch op {
				case 0:
					call("Stats", func() { t.Stats() })
				case 1:
					call("Peers", func() { t.Peers() })
				case 2:
					call("Trackers", func() { t.Trackers() })
				case 3:
					call("Webseeds", func() { t.Webseeds() })
				case 4:
					call("Files", func() { t.Files() })
				case 5:
					call("FileStats", func() { t.FileStats() })
				case 6:
					call("Session.Stats", func() { sut.Sess.Stats() })
				case 7:
					call("ListTorrents", func() {
						for _, x := range sut.Sess.ListTorrents() {
							x.Name()
							x.Port()
							x.InfoHash()
							x.AddedAt()
						}
					})
				case 8:
					call("AddPeer(ip)", func() { t.AddPeer(fmt.Sprintf("10.77.0.%d:6881", 1+r.Intn(200))) })
				case 9:
					call("AddPeer(host)", func() { t.AddPeer("peer.example:6881") })
				case 10:
					call("AddTracker", func() { t.AddTracker(fmt.Sprintf("http://10.78.0.%d/announce", 1+r.Intn(5))) })
				case 11:
					call("Announce", func() { t.Announce() })
				case 12:
					call("Magnet", func() { t.Magnet() })
				case 13:
					call("Torrent", func() { t.Torrent() })
				case 14:
					call("GetTorrent", func() { sut.Sess.GetTorrent("tt") })
				case 15:
					call("Port/Name/Dir", func() { t.Port(); t.Name(); t.Dir(); t.ID() })
				case 16:
					call("Stop", func() { t.Stop() })
				case 17, 18:
					call("Start", func() { t.Start() })
				case 19:
					call("AddTorrent+Remove", func() {
						id := fmt.Sprintf("s%d", ci)
						if x, err := sut.Sess.AddTorrent(bytes.NewReader(second.MetaBytes), &torrent.AddTorrentOptions{ID: id}); err == nil {
							x.Stats()
							sut.Sess.RemoveTorrent(id, false)
						}
					})
				case 20:
					call("CompactDatabase", func() {
						out := fmt.Sprintf("%s/apicompact-%d.db", w.env.TmpDir, ci)
						sut.Sess.CompactDatabase(out)
					})
				case 21:
					call("Verify", func() { t.Verify() })
				case 22:
					call("StartAll", func() { sut.Sess.StartAll() })
				case 23:
					call("CleanDatabase", func() { sut.Sess.CleanDatabase() })
				}
			}
			if rc != nil {
				rc.Close()
			}
		}(ci)
	}
	return cs
}

// checkAPIHang: a call that has not returned for two simulated minutes is stuck (no fault in
// this world delays an API call: they talk to the torrent's event loop and the session's locks).
func checkAPIHang(cs []*apiClient) {
	for i, c := range cs {
		c.mu.Lock()
		in, since, calls := c.inCall, c.since, c.calls
		c.mu.Unlock()
		simrt.Count("probe.api.calls", int64(calls))
		if in != "" && simrt.Now()-since > 2*time.Minute {
			simrt.Violate("C20", "api.hang", "API client %d: %s has not returned for %v", i, in, simrt.Now()-since)
		}
	}
}
