package worlds

import (
	"fmt"
	"net"
	"sync"
	"time"

	"github.com/cenkalti/rain/v2/internal/zzsim/refbt"
	"github.com/cenkalti/rain/v2/internal/zzsim/simnet"
	"github.com/cenkalti/rain/v2/internal/zzsim/simrt"
	"github.com/cenkalti/rain/v2/torrent"
)

// LimitsSpec switches on the C17 monitor of the transfer world: transport-level and Stats-level
// observation of every configured limit while a swarm (and bad-handshake actors) load the SUT.
type LimitsSpec struct {
	BadHS []BadHSSpec `json:"bad_hs,omitempty"`
	// BogusAddrs: unreachable addresses handed to AddPeer in bursts (address list limit).
	BogusAddrs int `json:"bogus_addrs,omitempty"`
	// Flood: a leecher that stops reading and sends this many requests at once (0 = none).
	Flood int `json:"flood,omitempty"`
	// LateCancels: before the flood the leecher downloads this many blocks normally and sends a
	// cancel for each after it has arrived (cancels that cross the block on the wire are normal).
	LateCancels int  `json:"late_cancels,omitempty"`
	FloodFast   bool `json:"flood_fast,omitempty"`
	// StopAt: the torrent is stopped (and later removed) at the end to check that every
	// reservation was given back.
	Balance bool `json:"balance,omitempty"`
}

// BadHSSpec: an actor whose handshake never completes.
type BadHSSpec struct {
	Name string        `json:"name"`
	Mode string        `json:"mode"` // dial | listen
	Kind string        `json:"kind"` // silent | garbage | wronghash | slow | close
	At   time.Duration `json:"at"`
	N    int           `json:"n"` // connections (dial mode)
}

type limitsMon struct {
	w    *transferWorld
	spec *LimitsSpec
	mu   sync.Mutex
	bad  []*badConn
	// consecutive over-limit samples
	overIn, overOut, overWs int
	samples                 []rateSample
	wsContacted             map[string]bool
	stop                    chan struct{}
}

type badConn struct {
	pair   *simnet.Pair
	side   int // our side
	kind   string
	opened time.Duration
	fedAt  time.Duration // when our (bad) bytes were all written
	judged bool
}

type rateSample struct {
	at       time.Duration
	down, up int64 // cumulative bytes consumed / written by the SUT on peer and web seed connections
	conns    int
}

func (m *limitsMon) sutSide(p *simnet.Pair) int {
	if p.HostA == m.w.sut.Host {
		return 0
	}
	if p.HostB == m.w.sut.Host {
		return 1
	}
	return -1
}

func otherHost(p *simnet.Pair, side int) *simrt.Host {
	if side == 0 {
		return p.HostB
	}
	return p.HostA
}

// badActor runs one bad-handshake actor.
func (m *limitsMon) badActor(s BadHSSpec, host *simrt.Host, sutAddr func() string, r *simrt.Rand) {
	feed := func(c net.Conn, bc *badConn) {
		defer func() {
			m.mu.Lock()
			bc.fedAt = simrt.Now()
			m.mu.Unlock()
			// then just wait for the SUT to hang up
			buf := make([]byte, 4096)
			for {
				if _, err := c.Read(buf); err != nil {
					c.Close()
					return
				}
			}
		}()
		switch s.Kind {
		case "silent":
		case "garbage":
			c.Write(r.Bytes(68 + r.Intn(200)))
		case "wronghash":
			h := refbt.Handshake{}
			copy(h.InfoHash[:], r.Bytes(20))
			copy(h.PeerID[:], "-XX0001-"+string(r.Bytes(12)))
			c.Write(h.Bytes())
		case "slow":
			h := refbt.Handshake{InfoHash: m.w.T.InfoHash}
			copy(h.PeerID[:], "-XX0002-abcdefghijkl")
			b := h.Bytes()
			for i := 0; i < len(b); i++ {
				if _, err := c.Write(b[i : i+1]); err != nil {
					return
				}
				time.Sleep(2 * time.Second)
			}
		case "close":
			c.Write(r.Bytes(10))
			time.Sleep(50 * time.Millisecond)
			c.Close()
		}
	}
	reg := func(c net.Conn) *badConn {
		pc, ok := c.(interface {
			SimPair() (*simnet.Pair, int)
		})
		if !ok {
			return nil
		}
		p, side := pc.SimPair()
		bc := &badConn{pair: p, side: side, kind: s.Kind, opened: simrt.Now()}
		m.mu.Lock()
		m.bad = append(m.bad, bc)
		m.mu.Unlock()
		simrt.Count("fault.handshake."+s.Kind, 1)
		return bc
	}
	simrt.Go(host, func() {
		if d := s.At - simrt.Now(); d > 0 {
			time.Sleep(d)
		}
		if s.Mode == "listen" {
			ln, err := simnet.ListenTCP("tcp4", &net.TCPAddr{Port: 6881})
			if err != nil {
				panic("harness: " + err.Error())
			}
			addr := ln.Addr().String()
			go func() {
				<-m.stop
				ln.Close()
			}()
			m.w.sut.In(func() { m.w.tor.AddPeer(addr) })
			for {
				c, err := ln.Accept()
				if err != nil {
					return
				}
				if bc := reg(c); bc != nil {
					go func() { simrt.Enter(host); feed(c, bc) }()
				}
			}
		}
		for i := 0; i < max(1, s.N); i++ {
			select {
			case <-m.stop:
				return
			default:
			}
			if a := sutAddr(); a != "" {
				d := simnet.Dialer{Timeout: 10 * time.Second}
				if c, err := d.Dial("tcp", a); err == nil {
					if bc := reg(c); bc != nil {
						go func() { simrt.Enter(host); feed(c, bc) }()
					}
				}
			}
			time.Sleep(r.Dur(100*time.Millisecond, 3*time.Second))
		}
	})
}

func (m *limitsMon) run() {
	cfg := m.w.sut.Cfg
	hsBound := cfg.PeerHandshakeTimeout + cfg.PeerConnectTimeout + 15*time.Second
	tick := 0
	for {
		select {
		case <-m.stop:
			return
		case <-time.After(200 * time.Millisecond):
		}
		tick++
		now := simrt.Now()
		in, out, ws := 0, 0, 0
		var down, up int64
		nconn := 0
		for _, p := range m.w.env.Net.Pairs() {
			s := m.sutSide(p)
			if s < 0 {
				continue
			}
			oh := otherHost(p, s)
			if oh == nil {
				continue
			}
			switch oh.Role {
			case "peer", "badhs", "leecher":
				down += p.Consumed(1 - s)
				up += p.BytesWritten(s)
				if !p.Closed(s) {
					nconn++
					if s == 0 {
						out++
					} else {
						in++
					}
				}
			case "webseed":
				down += p.Consumed(1 - s)
				if !p.Closed(s) {
					nconn++
				}
			}
		}
		for _, wa := range m.w.ws {
			wa.mu.Lock()
			ws += wa.Active
			if wa.Contacted {
				m.wsContacted[wa.Spec.Name] = true
			}
			wa.mu.Unlock()
		}
		// connection counts: established or handshaking, per direction; a connection that
		// is accepted only to be closed at once never shows up in two samples 200 ms apart
		chk := func(n, limit int, over *int, what string) {
			if n > limit {
				*over++
				if *over >= 3 {
					simrt.Violate("C17", "conns."+what, "%d %s peer connections open (transport level, SUT side not closed) for more than 400ms, limit %d", n, what, limit)
				}
			} else {
				*over = 0
			}
		}
		chk(in, cfg.MaxPeerAccept, &m.overIn, "incoming")
		chk(out, cfg.MaxPeerDial, &m.overOut, "outgoing")
		chk(ws, cfg.WebseedMaxDownloads, &m.overWs, "webseed_downloads")
		if len(m.wsContacted) > cfg.WebseedMaxSources {
			simrt.Violate("C17", "webseed.sources", "%d different web seed sources were contacted, limit %d", len(m.wsContacted), cfg.WebseedMaxSources)
		}
		// Stats-level
		var st torrent.Stats
		var ss torrent.SessionStats
		m.w.sut.In(func() { st = m.w.tor.Stats(); ss = m.w.sut.Sess.Stats() })
		if st.Peers.Incoming+st.Handshakes.Incoming > cfg.MaxPeerAccept {
			simrt.Violate("C17", "stats.incoming", "Stats: %d incoming peers + %d incoming handshakes, limit %d", st.Peers.Incoming, st.Handshakes.Incoming, cfg.MaxPeerAccept)
		}
		if st.Peers.Outgoing+st.Handshakes.Outgoing > cfg.MaxPeerDial {
			simrt.Violate("C17", "stats.outgoing", "Stats: %d outgoing peers + %d outgoing handshakes, limit %d", st.Peers.Outgoing, st.Handshakes.Outgoing, cfg.MaxPeerDial)
		}
		if st.Addresses.Total > cfg.MaxPeerAddresses {
			simrt.Violate("C17", "stats.addresses", "Stats: %d stored peer addresses, limit %d", st.Addresses.Total, cfg.MaxPeerAddresses)
		}
		if ss.ReadCacheSize > cfg.ReadCacheSize || ss.ReadCacheSize < 0 {
			simrt.Violate("C17", "stats.read_cache", "SessionStats: read cache holds %d bytes, limit %d", ss.ReadCacheSize, cfg.ReadCacheSize)
		}
		if ss.WriteCacheSize > cfg.WriteCacheSize || ss.WriteCacheSize < 0 {
			simrt.Violate("C17", "stats.write_cache", "SessionStats: %d bytes reserved for pieces being downloaded, limit %d", ss.WriteCacheSize, cfg.WriteCacheSize)
		}
		if ss.ReadsActive > int(cfg.ParallelReads) || ss.ReadsActive < 0 || ss.ReadsPending < 0 || ss.WritesActive < 0 || ss.WritesPending < 0 || ss.WriteCachePendingKeys < 0 || ss.PortsAvailable < 0 {
			simrt.Violate("C17", "stats.counters", "SessionStats counter out of range: %+v (parallel reads %d)", ss, cfg.ParallelReads)
		}
		// rate limits: every window of the sampled cumulative counters
		if cfg.SpeedLimitDownload > 0 || cfg.SpeedLimitUpload > 0 {
			cur := rateSample{now, down, up, nconn}
			if tick%5 == 0 {
				m.samples = append(m.samples, cur)
			}
			for _, s0 := range m.samples {
				dt := (cur.at - s0.at).Seconds()
				if dt <= 0 {
					continue
				}
				nc := int64(max(cur.conns, s0.conns) + 2)
				if lim := cfg.SpeedLimitDownload * 1024; lim > 0 {
					// one second of burst, what each connection's reader may have buffered
					// ahead of the limiter, and the unthrottled protocol chatter
					allowed := int64(float64(lim)*(dt+1)) + nc*(64<<10)
					if cur.down-s0.down > allowed {
						simrt.Violate("C17", "rate.download", "the SUT consumed %d bytes from peers and web seeds in %.1fs; download limit %d B/s allows %d (1 s burst + %d connections x 64 KiB read-ahead)", cur.down-s0.down, dt, lim, allowed, nc)
					}
				}
				if lim := cfg.SpeedLimitUpload * 1024; lim > 0 {
					allowed := int64(float64(lim)*(dt+1)) + nc*(32<<10)
					if cur.up-s0.up > allowed {
						simrt.Violate("C17", "rate.upload", "the SUT wrote %d bytes to peers in %.1fs; upload limit %d B/s allows %d (1 s burst + %d connections x 32 KiB of unthrottled messages)", cur.up-s0.up, dt, lim, allowed, nc)
					}
				}
			}
			if len(m.samples) > 300 {
				m.samples = m.samples[100:]
			}
		}
		// failed handshakes are closed, not kept
		m.mu.Lock()
		for _, bc := range m.bad {
			if bc.judged {
				continue
			}
			s := 1 - bc.side
			if bc.pair.Closed(s) || bc.pair.Closed(bc.side) {
				bc.judged = true
				continue
			}
			ref := bc.opened
			if bc.kind == "slow" {
				continue // judged below by absolute age only
			}
			if now-ref > hsBound {
				bc.judged = true
				simrt.Violate("C17", "handshake.kept", "a connection whose handshake cannot complete (%s) is still open on the SUT's side %v after it was made (handshake timeout %v)", bc.kind, now-ref, cfg.PeerHandshakeTimeout)
			}
		}
		for _, bc := range m.bad {
			if bc.kind == "slow" && !bc.judged && !bc.pair.Closed(1-bc.side) && !bc.pair.Closed(bc.side) && now-bc.opened > hsBound+140*time.Second {
				bc.judged = true
				simrt.Violate("C17", "handshake.kept", "a connection dribbling its handshake one byte every 2 s is still open %v after it was made (handshake timeout %v)", now-bc.opened, cfg.PeerHandshakeTimeout)
			}
		}
		m.mu.Unlock()
	}
}

// flooder: connects, gets unchoked, stops reading, sends a burst of requests, then counts what
// the SUT serves once it reads again: at most MaxRequestsIn queued + what fitted in the window.
func (m *limitsMon) flooder(host *simrt.Host, sutAddr func() string, r *simrt.Rand) {
	cfg := m.w.sut.Cfg
	T := m.w.T
	simrt.Go(host, func() {
		time.Sleep(r.Dur(2*time.Second, 10*time.Second))
		a := sutAddr()
		if a == "" {
			return
		}
		d := simnet.Dialer{Timeout: 10 * time.Second}
		c, err := d.Dial("tcp", a)
		if err != nil {
			return
		}
		defer c.Close()
		pc := c.(interface {
			SimPair() (*simnet.Pair, int)
		})
		pair, side := pc.SimPair()
		h := refbt.Handshake{InfoHash: T.InfoHash}
		if m.spec.FloodFast {
			h.Reserved[7] |= 0x04
		}
		copy(h.PeerID[:], "-XX0003-floodfloodfl")
		c.Write(h.Bytes())
		if _, err := refbt.ReadHandshake(c); err != nil {
			return
		}
		if m.spec.FloodFast {
			c.Write(refbt.EncSimple(refbt.MsgHaveNone))
		}
		c.Write(refbt.EncSimple(refbt.MsgInterested))
		have := refbt.NewBits(T.NumPieces)
		unchoked := false
		c.SetReadDeadline(time.Now().Add(60 * time.Second))
		for !unchoked {
			msg, err := refbt.ReadMsg(c, T.NumPieces, 1<<20)
			if err != nil {
				return
			}
			switch msg.ID {
			case refbt.MsgBitfield:
				have = append(refbt.Bits(nil), msg.Data...)
			case refbt.MsgHaveAll:
				have = refbt.FullBits(T.NumPieces)
			case refbt.MsgHave:
				have.Set(int(msg.Index))
			case refbt.MsgUnchoke:
				unchoked = true
			}
		}
		var idx []int
		for i := 0; i < T.NumPieces; i++ {
			if have.Has(i) {
				idx = append(idx, i)
			}
		}
		if len(idx) == 0 {
			return
		}
		// late cancels: blocks that already arrived are cancelled afterwards
		for k := 0; k < m.spec.LateCancels; k++ {
			i := idx[k%len(idx)]
			l := uint32(min(16384, T.PieceSize(i)))
			c.Write(refbt.EncRequest(uint32(i), 0, l))
			got := false
			for !got {
				msg, err := refbt.ReadMsg(c, T.NumPieces, 1<<20)
				if err != nil {
					return
				}
				got = msg.ID == refbt.MsgPiece || msg.ID == refbt.MsgReject
			}
			c.Write(refbt.EncCancel(uint32(i), 0, l))
			simrt.Count("fault.flood.late_cancel", 1)
		}
		if m.spec.LateCancels > 0 {
			time.Sleep(2 * time.Second)
		}
		// stop reading for long enough that the whole burst is processed against a full pipe
		pair.Stall(1-side, 20*time.Second)
		var burst []byte
		n := 0
		for k := 0; n < m.spec.Flood; k++ {
			i := idx[k%len(idx)]
			ps := T.PieceSize(i)
			for b := 0; b < ps && n < m.spec.Flood; b += 16384 {
				l := min(16384, ps-b)
				burst = append(burst, refbt.EncRequest(uint32(i), uint32(b), uint32(l))...)
				n++
			}
			if k > 10000 {
				break
			}
		}
		// distinct requests only (rain rejects duplicates): cap by what exists
		c.Write(burst)
		simrt.Count("fault.flood.requests", int64(n))
		pieces, rejects := 0, 0
		c.SetReadDeadline(time.Now().Add(90 * time.Second))
		for {
			msg, err := refbt.ReadMsg(c, T.NumPieces, 1<<20)
			if err != nil {
				break
			}
			switch msg.ID {
			case refbt.MsgPiece:
				pieces++
			case refbt.MsgReject:
				rejects++
			}
		}
		window := m.w.plan.Net.Window
		allowed := cfg.MaxRequestsIn + window/16384 + 3
		simrt.Logf("flooder: sent %d requests, got %d pieces %d rejects (allowed %d)", n, pieces, rejects, allowed)
		if pieces > allowed {
			simrt.Violate("C17", "requests_in.limit", "a peer that stopped reading and sent %d requests at once was served %d blocks; queued upload requests per peer are limited to %d (+%d that fit the %d-byte window)", n, pieces, cfg.MaxRequestsIn, window/16384+3, window)
		}
	})
}

func (w *transferWorld) startLimits(sutAddr func() string) *limitsMon {
	m := &limitsMon{w: w, spec: w.plan.Limits, wsContacted: map[string]bool{}, stop: make(chan struct{})}
	r := w.env.R.Fork()
	for _, s := range m.spec.BadHS {
		m.badActor(s, w.env.NewHost(s.Name, "badhs"), sutAddr, r.Fork())
	}
	if m.spec.Flood > 0 {
		m.flooder(w.env.NewHost("flood", "leecher"), sutAddr, r.Fork())
	}
	if m.spec.BogusAddrs > 0 {
		go func() {
			for k := 0; k < 4; k++ {
				time.Sleep(r.Dur(time.Second, 10*time.Second))
				for i := 0; i < m.spec.BogusAddrs; i++ {
					addr := fmt.Sprintf("10.200.%d.%d:%d", k, 1+i%250, 1000+i)
					w.sut.In(func() { w.tor.AddPeer(addr) })
				}
			}
		}()
	}
	go m.run()
	return m
}

// finishLimits: stop and remove the torrent; every reservation must have been given back.
func (m *limitsMon) finish() {
	close(m.stop)
	if !m.spec.Balance {
		return
	}
	w := m.w
	w.sut.In(func() { w.tor.Stop() })
	time.Sleep(w.sut.Cfg.TrackerStopTimeout + 15*time.Second)
	var st torrent.Stats
	var ss torrent.SessionStats
	w.sut.In(func() { st = w.tor.Stats(); ss = w.sut.Sess.Stats() })
	if st.Status != torrent.Stopped {
		return // C04's business
	}
	if ss.WriteCacheSize != 0 || ss.WriteCachePendingKeys != 0 || ss.WriteCacheObjects != 0 {
		simrt.Violate("C17", "balance.write_cache", "after the only torrent stopped %d bytes in %d objects (%d pending keys) are still reserved for pieces being downloaded", ss.WriteCacheSize, ss.WriteCacheObjects, ss.WriteCachePendingKeys)
	}
	if ss.Peers != 0 || ss.ReadsActive != 0 || ss.ReadsPending != 0 || ss.WritesActive != 0 || ss.WritesPending != 0 {
		simrt.Violate("C17", "balance.counters", "after the only torrent stopped: peers=%d reads active/pending=%d/%d writes active/pending=%d/%d", ss.Peers, ss.ReadsActive, ss.ReadsPending, ss.WritesActive, ss.WritesPending)
	}
	open := 0
	var which []string
	for _, p := range w.env.Net.Pairs() {
		if s := m.sutSide(p); s >= 0 && !p.Closed(s) {
			// (an idle keep-alive connection to a web seed may stay in the session's HTTP pool:
			// that is a cache of the session, not a reservation of the torrent)
			if oh := otherHost(p, s); oh != nil && (oh.Role == "peer" || oh.Role == "badhs" || oh.Role == "leecher") {
				open++
				which = append(which, fmt.Sprintf("#%d %s(%s) dialled_by_sut=%v opened=%v", p.ID, oh.Name, oh.Role, s == 0, p.OpenedAt))
			}
		}
	}
	if open > 0 {
		simrt.Violate("C17", "balance.connections", "%d peer connections are still open on the SUT's side after the torrent stopped: %v", open, which)
	}
	total := int(w.sut.Cfg.PortEnd) - int(w.sut.Cfg.PortBegin)
	w.sut.In(func() { w.sut.Sess.RemoveTorrent("tt", false) })
	time.Sleep(2 * time.Second)
	w.sut.In(func() { ss = w.sut.Sess.Stats() })
	if ss.PortsAvailable != total || ss.Torrents != 0 {
		simrt.Violate("C17", "balance.ports", "after removing the only torrent %d of %d ports are free and %d torrents are counted", ss.PortsAvailable, total, ss.Torrents)
	}
}
