package worlds

import (
	"bytes"
	"encoding/binary"
	"fmt"
	"net"
	"net/http"
	"sort"
	"strconv"
	"strings"
	"sync"
	"time"

	"github.com/cenkalti/rain/v2/internal/zzsim/gen"
	"github.com/cenkalti/rain/v2/internal/zzsim/refbt"
	"github.com/cenkalti/rain/v2/internal/zzsim/simfs"
	"github.com/cenkalti/rain/v2/internal/zzsim/simnet"
	"github.com/cenkalti/rain/v2/internal/zzsim/simrt"
	"github.com/cenkalti/rain/v2/torrent"
	"github.com/nictuku/dht"
)

// Candidate is a peer address offered to the SUT through one of its peer sources.
type Candidate struct {
	Name string `json:"name"`
	IP   string `json:"ip"`   // fixed address (so that block rules can target it)
	Port int    `json:"port"` // 0 = "port zero" candidate (nothing listens)
	// Via: tracker, pex, dht, manual, incoming (the candidate dials the SUT itself)
	Via string        `json:"via"`
	At  time.Duration `json:"at"`
	// Kind: "seed" (honest listening peer), "self" (the SUT's own address), "corrupt" (sends
	// bad data so that it gets banned; offered again later), "dup" (second port on the IP of
	// an already connected peer)
	Kind string `json:"kind"`
}

type BlockStage struct {
	At    time.Duration `json:"at"`
	Rules []string      `json:"rules"` // lines of the list as served from then on
}

// PolicyPlan: who may the client contact? (C18 blocklist/address filtering, C19 private torrents)
type PolicyPlan struct {
	Layout     gen.Layout    `json:"layout"`
	K          Knobs         `json:"knobs"`
	Net        simnet.Config `json:"net"`
	Magnet     bool          `json:"magnet,omitempty"`
	Cands      []Candidate   `json:"cands"`
	Block      []BlockStage  `json:"block,omitempty"`
	BlockOut   bool          `json:"block_out"`
	BlockIn    bool          `json:"block_in"`
	BlockTrk   bool          `json:"block_trk"`
	TrackerIPs []string      `json:"tracker_ips,omitempty"` // one HTTP tracker per IP
	UDPTracker string        `json:"udp_tracker,omitempty"` // IP of a UDP tracker ("" = none)
	Dur        time.Duration `json:"dur"`
	// Churn: addresses (known candidates and unreachable ones) are handed to AddPeer again and
	// again while few dial slots and a tiny address list keep them queued (bounded priority set).
	Churn bool `json:"churn,omitempty"`
	// ExtAgain: the scripted peers send their extension handshake a second time.
	ExtAgain bool `json:"ext_again,omitempty"`
}

type ipRule struct{ first, last uint32 }

// parseRules: an independent reading of the list format (CIDR per line, '#' comments, blank
// and malformed lines ignored).
func parseRules(lines []string) []ipRule {
	var out []ipRule
	for _, l := range lines {
		l = strings.TrimSpace(l)
		if l == "" || l[0] == '#' {
			continue
		}
		ip, n, ok := strings.Cut(l, "/")
		if !ok {
			continue
		}
		bits, err := strconv.Atoi(n)
		p := net.ParseIP(ip).To4()
		if err != nil || bits < 0 || bits > 32 || p == nil || strings.Contains(ip, ":") {
			continue
		}
		v := binary.BigEndian.Uint32(p)
		var mask uint32
		if bits > 0 {
			mask = ^uint32(0) << (32 - uint(bits))
		}
		out = append(out, ipRule{v & mask, v&mask | ^mask})
	}
	return out
}

func blockedBy(rules []ipRule, ip string) bool {
	p := net.ParseIP(ip).To4()
	if p == nil {
		return false
	}
	v := binary.BigEndian.Uint32(p)
	for _, r := range rules {
		if v >= r.first && v <= r.last {
			return true
		}
	}
	return false
}

func RunPolicy(env *Env, plan *PolicyPlan) {
	env.Net.Cfg = plan.Net
	var mu sync.Mutex
	T := gen.Build(plan.Layout)
	hostAt := func(name, role, ip string) *simrt.Host {
		h := env.NewHost(name, role)
		if ip != "" {
			h.IP = ip
		}
		return h
	}

	// ---- blocklist server -------------------------------------------------------
	type served struct {
		at    time.Duration // response completed
		start time.Duration
		rules []ipRule
	}
	var servedLog []served
	var blHost *simrt.Host
	k := plan.K
	if len(plan.Block) > 0 {
		blHost = hostAt("blsrv", "blocklist", "")
		prev := simrt.Cur()
		simrt.Enter(blHost)
		ln, err := simnet.Listen("tcp", "0.0.0.0:80")
		simrt.Enter(prev)
		if err != nil {
			panic("harness: blocklist listen: " + err.Error())
		}
		srv := &http.Server{Handler: http.HandlerFunc(func(rw http.ResponseWriter, r *http.Request) {
			start := simrt.Now()
			var cur []string
			for _, st := range plan.Block {
				if simrt.Now() >= st.At {
					cur = st.Rules
				}
			}
			body := []byte(strings.Join(cur, "\n") + "\n")
			rw.Header().Set("Content-Length", strconv.Itoa(len(body)))
			rw.Write(body)
			// a list without any valid rule but with malformed lines is refused by the client
			// ("no valid rules"): the previous list stays in effect
			rs := parseRules(cur)
			malformed := false
			for _, l := range cur {
				l = strings.TrimSpace(l)
				if l != "" && l[0] != '#' && len(parseRules([]string{l})) == 0 {
					malformed = true
				}
			}
			if len(rs) > 0 || !malformed {
				mu.Lock()
				servedLog = append(servedLog, served{at: simrt.Now(), start: start, rules: rs})
				mu.Unlock()
			}
			simrt.Logf("blocklist served %d lines", len(cur))
			simrt.Count("probe.blocklist.served", 1)
		})}
		simrt.Go(blHost, func() { srv.Serve(ln) })
		k.BlocklistURL = "http://" + ln.Addr().String() + "/list.txt"
		k.BlocklistUpdateInterval = 20 * time.Second
	}
	k.BlockOutOff, k.BlockInOff, k.BlockTrkOff = !plan.BlockOut, !plan.BlockIn, !plan.BlockTrk

	// ---- trackers ------------------------------------------------------------------
	var trackers []*TrackerActor
	var tiers [][]string
	iv := int64(30)
	for i, ip := range plan.TrackerIPs {
		ta := &TrackerActor{Host: hostAt(fmt.Sprintf("tr%d", i), "tracker", ip), Script: []Reply{{Kind: "ok", Interval: &iv}}}
		ta.Start(env.R.Uint64())
		trackers = append(trackers, ta)
		tiers = append(tiers, []string{ta.URL})
	}
	if plan.UDPTracker != "" {
		ta := &TrackerActor{Host: hostAt("utr", "tracker", plan.UDPTracker), UDP: true, Script: []Reply{{Kind: "ok", Interval: &iv}}}
		ta.Start(env.R.Uint64())
		trackers = append(trackers, ta)
		tiers = append(tiers, []string{ta.URL})
	}
	T.Trackers = tiers
	T.RebuildMeta()

	// ---- SUT -----------------------------------------------------------------------
	sutHost := hostAt("sut", "sut", "")
	fs := simfs.New("sut", env.R.Uint64())
	sut, err := env.StartNode(sutHost, fs, "", k)
	if err != nil {
		panic("harness: cannot start SUT: " + err.Error())
	}
	// Knobs.Apply cannot express "enabled" booleans that default to true: set them here
	// is not possible after start, so they are part of BaseConfig via the knobs below.
	var tor *torrent.Torrent
	opt := &torrent.AddTorrentOptions{ID: "tt", Stopped: true}
	var link string
	sut.In(func() {
		if plan.Magnet {
			link = buildMagnet(T.InfoHash, false, T.Name, tiers, nil)
			tor, err = sut.Sess.AddURI(link, opt)
		} else {
			tor, err = sut.Sess.AddTorrent(bytes.NewReader(T.MetaBytes), opt)
		}
	})
	if err != nil {
		simrt.Violate("C10", "add.rejected", "valid torrent rejected: %v", err)
		return
	}
	dir := sut.TorrentDir("tt")
	installDiskOracle(fs, T, dir, nil)
	privateDeclared := plan.Layout.Private == "i1e"

	// ---- candidates ------------------------------------------------------------------
	sutAddr := func() string {
		addr := fmt.Sprintf("%s:%d", sutHost.IP, tor.Port())
		if env.Net.Listening(addr) {
			return addr
		}
		return ""
	}
	type cand struct {
		c       Candidate
		actor   *PeerActor
		addr    string
		offered time.Duration
	}
	var cands []*cand
	handshakes := map[string]int{} // candidate name -> completed handshakes with the SUT
	var pexRecvTotal int
	var peerIDs [][20]byte
	var extVersions []string
	for _, c := range plan.Cands {
		cd := &cand{c: c}
		switch c.Kind {
		case "self":
			cd.addr = "" // filled when offered
		default:
			if c.Port == 0 {
				cd.addr = c.IP + ":0"
				break
			}
			b := refbt.Honest(T, true)
			// nobody has piece 0: the download cannot finish, so the client keeps looking
			// for (and dialling) peers for the whole run
			b.Have = refbt.FullBits(T.NumPieces)
			b.Have.Clear(0)
			b.Announce = "bitfield"
			if c.Kind == "corrupt" {
				b.CorruptP = 1
			}
			if plan.ExtAgain {
				b.ExtAgain = 2 * time.Second
			}
			a := &PeerActor{Spec: PeerSpec{Name: c.Name, B: b, Mode: "listen"}, Host: hostAt(c.Name, "peer", c.IP), T: T, Seed: env.R.Uint64(), SutAddr: sutAddr}
			if c.Via == "incoming" {
				a.Spec.Mode = "dial"
				a.Spec.At = c.At
				a.Spec.Redial = 7 * time.Second
			} else {
				prev := simrt.Cur()
				simrt.Enter(a.Host)
				ln, lerr := simnet.ListenTCP("tcp4", &net.TCPAddr{Port: c.Port})
				simrt.Enter(prev)
				if lerr != nil {
					panic("harness: candidate listen: " + lerr.Error())
				}
				a.SetListener(ln)
			}
			name := c.Name
			a.OnNew = func(p *refbt.Peer) {}
			a.Hooks = refbt.Hooks{OnMsg: func(p *refbt.Peer, m refbt.Msg) {
				mu.Lock()
				defer mu.Unlock()
				if p.MsgCount == 1 {
					handshakes[name]++
					peerIDs = append(peerIDs, p.HS.PeerID)
				}
				if m.ID == refbt.MsgExtended && m.ExtID == 0 {
					if v, ok := m.ExtDict["v"].(string); ok {
						extVersions = append(extVersions, v)
					}
				}
			}}
			a.Start()
			cd.actor = a
			cd.addr = fmt.Sprintf("%s:%d", c.IP, c.Port)
		}
		cands = append(cands, cd)
	}
	// a helper peer that feeds PEX messages to the SUT (it is an ordinary honest seed)
	pexHelper := &PeerActor{Spec: PeerSpec{Name: "pexh", Mode: "dial", Redial: 5 * time.Second}, Host: hostAt("pexh", "peer", ""), T: T, Seed: env.R.Uint64(), SutAddr: sutAddr}
	{
		b := refbt.Honest(T, true)
		b.Have = refbt.FullBits(T.NumPieces)
		b.Have.Clear(0)
		b.Announce = "bitfield"
		if plan.ExtAgain {
			b.ExtAgain = 3 * time.Second
		}
		var rounds [][]string
		var cur []string
		last := time.Duration(0)
		for _, cd := range cands {
			if cd.c.Via == "pex" && cd.c.Kind != "self" {
				if cd.c.At-last > 3*time.Second && len(cur) > 0 {
					rounds = append(rounds, cur)
					cur = nil
				}
				cur = append(cur, cd.addr)
				last = cd.c.At
			}
		}
		if len(cur) > 0 {
			rounds = append(rounds, cur)
		}
		b.PEXAdded = rounds
		b.PEXEvery = 4 * time.Second
		b.SendPort = 6881 // a DHT port message: must not reach the DHT for private torrents
		b.DHTBit = true
		pexHelper.Spec.B = b
		pexHelper.Hooks = refbt.Hooks{}
		pexHelper.Start()
	}
	for _, ta := range trackers {
		var peers []string
		for _, cd := range cands {
			if cd.c.Via == "tracker" && cd.addr != "" {
				peers = append(peers, cd.addr)
			}
		}
		ta.Peers = peers
	}

	// ---- DHT stub ---------------------------------------------------------------------
	var dhtNode *dht.DHT
	if nodes := dht.Nodes(); len(nodes) > 0 {
		dhtNode = nodes[len(nodes)-1]
	}

	sut.In(func() { tor.Start() })

	if plan.Churn {
		go func() {
			cr := env.R.Fork()
			var pool []string
			for _, cd := range cands {
				// never the candidates that must stay unknown to a private torrent: the oracle
				// "dialled an address it can only know from pex/dht" would lose its premise
				if cd.c.Kind != "self" && cd.c.Port != 0 && cd.c.Via != "pex" && cd.c.Via != "dht" {
					pool = append(pool, cd.addr)
				}
			}
			for i := 0; i < 12; i++ {
				pool = append(pool, fmt.Sprintf("20.9.%d.%d:%d", cr.Range(0, 3), cr.Range(1, 250), cr.Range(1024, 60000)))
			}
			for simrt.Now() < plan.Dur {
				time.Sleep(cr.Dur(200*time.Millisecond, 3*time.Second))
				for k := 0; k < cr.Range(1, 4); k++ {
					a := simrt.Pick(cr, pool)
					sut.In(func() { tor.AddPeer(a) })
					simrt.Count("fault.policy.readd_address", 1)
				}
			}
		}()
	}
	// timed offers (manual / dht / self)
	go func() {
		sorted := append([]*cand(nil), cands...)
		sort.SliceStable(sorted, func(i, j int) bool { return sorted[i].c.At < sorted[j].c.At })
		for _, cd := range sorted {
			if d := cd.c.At - simrt.Now(); d > 0 {
				time.Sleep(d)
			}
			if cd.c.Kind == "self" {
				cd.addr = fmt.Sprintf("%s:%d", sutHost.IP, tor.Port())
			}
			mu.Lock()
			cd.offered = simrt.Now()
			mu.Unlock()
			switch cd.c.Via {
			case "manual":
				sut.In(func() { tor.AddPeer(cd.addr) })
			case "dht":
				if dhtNode != nil {
					ta, rerr := net.ResolveTCPAddr("tcp", cd.addr)
					if rerr == nil && ta.IP.To4() != nil {
						cp := string(append(append([]byte{}, ta.IP.To4()...), byte(ta.Port>>8), byte(ta.Port)))
						dhtNode.Inject(map[dht.InfoHash][]string{dht.InfoHash(T.InfoHash[:]): {cp}})
						simrt.Count("probe.policy.dht_injected", 1)
					}
				}
			case "tracker":
				// learned at the next announce: ask for one
				sut.In(func() { tor.Announce() })
			}
		}
	}()

	time.Sleep(plan.Dur)

	// ---- oracles -------------------------------------------------------------------------
	var st torrent.Stats
	sut.In(func() { st = tor.Stats() })
	private := st.Private
	if privateDeclared != private && (plan.Layout.Private == "i1e" || plan.Layout.Private == "i0e" || plan.Layout.Private == "") && !plan.Magnet {
		// only the unambiguous encodings are judged: integer 1 is private, integer 0 / absent is not
		simrt.Violate("C19", "private.flag", "metainfo private=%q but Stats().Private=%v", plan.Layout.Private, private)
	}
	mu.Lock()
	defer mu.Unlock()
	// which lists could have been in effect at time t (loaded before t, or being loaded)
	rulesAt := func(t time.Duration) [][]ipRule {
		var out [][]ipRule
		lastIdx := -1
		for i, s := range servedLog {
			if s.at <= t-2*time.Second {
				lastIdx = i
			}
		}
		for i, s := range servedLog {
			if i == lastIdx || (i > lastIdx && s.start <= t+time.Second) {
				out = append(out, s.rules)
			}
		}
		return out
	}
	blockedAt := func(ip string, t time.Duration) bool {
		rs := rulesAt(t)
		if len(rs) == 0 {
			return false
		}
		for _, r := range rs {
			if !blockedBy(r, ip) {
				return false
			}
		}
		return true
	}
	candByAddr := map[string]*cand{}
	for _, cd := range cands {
		if cd.addr != "" {
			candByAddr[cd.addr] = cd
		}
	}
	dialled := map[string]bool{}
	for _, d := range env.Net.Dials {
		if d.From != "sut" {
			continue
		}
		host, port, _ := net.SplitHostPort(d.To)
		dialled[d.To] = true
		isTracker := false
		for _, ta := range trackers {
			// (a candidate peer may share its IP with a tracker: the tracker is its port 6969)
			if ta.Host.IP == host && port == "6969" {
				isTracker = true
			}
		}
		if blHost != nil && host == blHost.IP {
			continue
		}
		if isTracker {
			if plan.BlockTrk && blockedAt(host, d.At) {
				simrt.Violate("C18", "dial.blocked_tracker", "the client connected to tracker %s at %v although the loaded blocklist blocks it", d.To, d.At)
			}
			continue
		}
		if plan.BlockOut && blockedAt(host, d.At) {
			simrt.Violate("C18", "dial.blocked_peer", "the client dialled %s at %v although the loaded blocklist blocks it", d.To, d.At)
		}
		if port == "0" {
			simrt.Violate("C18", "dial.port_zero", "the client dialled %s", d.To)
		}
		if host == sutHost.IP {
			simrt.Violate("C18", "dial.self", "the client dialled its own address %s", d.To)
		}
		if cd := candByAddr[d.To]; cd != nil {
			if private && (cd.c.Via == "pex" || cd.c.Via == "dht") {
				simrt.Violate("C19", "private.dialled_"+cd.c.Via, "private torrent: the client dialled %s, an address it can only know from %s", d.To, cd.c.Via)
			}
		}
	}
	// UDP tracker contact while blocked
	for _, u := range env.Net.UDPSent {
		host, _, _ := net.SplitHostPort(u.To)
		if strings.HasPrefix(u.From, sutHost.IP+":") && plan.UDPTracker == host && plan.BlockTrk && blockedAt(host, u.At) {
			simrt.Violate("C18", "dial.blocked_tracker", "the client sent a datagram to UDP tracker %s at %v although the loaded blocklist blocks it", u.To, u.At)
		}
	}
	// announces over connections that were opened before the tracker became blocked
	for _, ta := range trackers {
		if ta.UDP || !plan.BlockTrk {
			continue
		}
		for _, a := range ta.Announces() {
			if blockedAt(ta.Host.IP, a.At) && blockedAt(ta.Host.IP, a.At-3*time.Second) {
				simrt.Violate("C18", "announce.blocked_tracker", "the client announced to tracker %s at %v although the loaded blocklist blocks it", ta.Host.IP, a.At)
				break
			}
		}
	}
	// incoming from blocked addresses must not become peers
	for _, cd := range cands {
		if cd.c.Via != "incoming" || cd.actor == nil {
			continue
		}
		for _, p := range cd.actor.Conns {
			if p.HandshakeAt > 0 && plan.BlockIn && blockedAt(cd.c.IP, p.HandshakeAt) && blockedAt(cd.c.IP, p.HandshakeAt-3*time.Second) {
				simrt.Violate("C18", "accept.blocked_peer", "an incoming connection from blocked address %s completed the handshake at %v", cd.c.IP, p.HandshakeAt)
			}
		}
	}
	// completeness: an unblocked, fresh, listening candidate offered early enough is contacted
	for _, cd := range cands {
		if cd.actor == nil || cd.c.Via == "incoming" || cd.c.Kind != "seed" || cd.offered == 0 {
			continue
		}
		if private && (cd.c.Via == "pex" || cd.c.Via == "dht") {
			continue
		}
		if !plan.K.DHTEnabled && cd.c.Via == "dht" {
			continue
		}
		if plan.K.PEXDisabled && cd.c.Via == "pex" {
			continue
		}
		everBlocked := false
		for _, s := range servedLog {
			if blockedBy(s.rules, cd.c.IP) {
				everBlocked = true
			}
		}
		late := plan.Dur-cd.offered < 3*time.Minute
		if everBlocked || late || st.Status == torrent.Seeding || plan.Magnet {
			continue
		}
		if !dialled[cd.addr] {
			simrt.Count("probe.policy.unblocked_not_dialled", 1)
		}
	}
	// ---- C19 ---------------------------------------------------------------------------
	for _, p := range pexHelper.Conns {
		pexRecvTotal += p.PEXRecv
	}
	for _, cd := range cands {
		if cd.actor != nil {
			for _, p := range cd.actor.Conns {
				pexRecvTotal += p.PEXRecv
			}
		}
	}
	if private {
		if pexRecvTotal > 0 {
			simrt.Violate("C19", "private.pex_sent", "private torrent: the client sent %d PEX messages to peers", pexRecvTotal)
		}
		if dhtNode != nil {
			for _, c := range dhtNode.Calls() {
				if c.Op == "PeersRequestPort" && c.InfoHash == string(T.InfoHash[:]) {
					simrt.Violate("C19", "private.dht_announce", "private torrent announced to / queried from the DHT")
				}
				if c.Op == "AddNode" {
					simrt.Violate("C19", "private.dht_addnode", "a port message of a private torrent's peer was fed to the DHT (%s)", c.Addr)
				}
			}
		}
		var ml string
		var merr error
		mu.Unlock()
		sut.In(func() { ml, merr = tor.Magnet() })
		mu.Lock()
		if merr == nil {
			simrt.Violate("C19", "private.magnet_exported", "private torrent exported a magnet link: %s", ml)
		}
		if st.Addresses.PEX > 0 || st.Addresses.DHT > 0 {
			simrt.Violate("C19", "private.addresses", "private torrent holds %d PEX and %d DHT addresses", st.Addresses.PEX, st.Addresses.DHT)
		}
		// identity strings
		wantPrefix := sut.Cfg.PrivatePeerIDPrefix
		for _, id := range peerIDs {
			if !strings.HasPrefix(string(id[:]), wantPrefix) {
				simrt.Violate("C19", "private.peer_id_prefix", "private torrent handshake peer id %q lacks the configured prefix %q", id[:], wantPrefix)
				break
			}
		}
		for _, v := range extVersions {
			if v != sut.Cfg.PrivateExtensionHandshakeClientVersion {
				simrt.Violate("C19", "private.client_version", "private torrent extension handshake says v=%q, configured %q", v, sut.Cfg.PrivateExtensionHandshakeClientVersion)
				break
			}
		}
		for _, ta := range trackers {
			for _, a := range ta.Announces() {
				if a.Proto == "http" && a.UserAgent != sut.Cfg.TrackerHTTPPrivateUserAgent {
					simrt.Violate("C19", "private.user_agent", "private torrent announce with User-Agent %q, configured %q", a.UserAgent, sut.Cfg.TrackerHTTPPrivateUserAgent)
				}
				if !strings.HasPrefix(string(a.PeerID[:]), wantPrefix) {
					simrt.Violate("C19", "private.peer_id_prefix", "private torrent announce peer id %q lacks the configured prefix %q", a.PeerID[:], wantPrefix)
				}
			}
		}
	}
	if plan.Magnet && privateDeclared && plan.Layout.Private == "i1e" {
		// metadata that turns out private must be refused
		if st.Status != torrent.Stopped && st.Status != torrent.DownloadingMetadata {
			simrt.Violate("C19", "private.magnet_accepted", "metadata fetched through a magnet link is private but the torrent is %s", st.Status)
		}
		if n := len(fs.Files(dir)); n > 0 {
			simrt.Violate("C19", "private.magnet_allocated", "private metadata from a magnet link: %d files were allocated", n)
		}
	}
	nh := 0
	for _, n := range handshakes {
		nh += n
	}
	env.Stats["handshakes"] = nh
	env.Stats["private"] = private
	env.Stats["dials"] = len(env.Net.Dials)
	env.Stats["lists_served"] = len(servedLog)
	env.Stats["pex_recv"] = pexRecvTotal
	env.NonTriv = nh > 0 || len(env.Net.Dials) > 2
	env.SigAdd("cands=%d block=%d private=%v", len(cands), len(plan.Block), private)
	simrt.FreezeTrace()
	mu.Unlock()
	for _, cd := range cands {
		if cd.actor != nil {
			cd.actor.Stop()
		}
	}
	pexHelper.Stop()
	sut.Close()
	if private && !plan.Magnet {
		// the same torrent loaded from resume data by a new session must keep its private
		// identity: announces after the restart carry the configured user agent and prefix
		n0 := map[*TrackerActor]int{}
		for _, ta := range trackers {
			n0[ta] = len(ta.Announces())
		}
		dht0 := 0
		if dhtNode != nil {
			dht0 = len(dhtNode.Calls())
		}
		k2 := k
		k2.BlocklistURL = "" // NewSession waits for a first list forever; the list server may be down by now
		sut2, rerr := env.StartNode(sutHost, fs, sut.DBPath, k2)
		if rerr == nil {
			simrt.Count("probe.policy.private_restart", 1)
			time.Sleep(40 * time.Second)
			wantPrefix := sut2.Cfg.PrivatePeerIDPrefix
			for _, ta := range trackers {
				for _, a := range ta.Announces()[n0[ta]:] {
					if a.Proto == "http" && a.UserAgent != sut2.Cfg.TrackerHTTPPrivateUserAgent {
						simrt.Violate("C19", "private.user_agent", "after a restart the private torrent announces with User-Agent %q, configured %q", a.UserAgent, sut2.Cfg.TrackerHTTPPrivateUserAgent)
					}
					if !strings.HasPrefix(string(a.PeerID[:]), wantPrefix) {
						simrt.Violate("C19", "private.peer_id_prefix", "after a restart the private torrent announces with peer id %q, configured prefix %q", a.PeerID[:], wantPrefix)
					}
				}
			}
			if dhtNode != nil {
				for _, c := range dhtNode.Calls()[dht0:] {
					if c.Op == "PeersRequestPort" && c.InfoHash == string(T.InfoHash[:]) {
						simrt.Violate("C19", "private.dht_announce", "after a restart the private torrent is announced to / queried from the DHT")
					}
				}
			}
			sut2.Close()
		}
	}
	for _, ta := range trackers {
		ta.Stop()
	}
	mu.Lock()
}

func init() {
	genPolicy := func(r *simrt.Rand, tier string, private bool) *PolicyPlan {
		l := gen.RandomLayout(r, gen.GenOpts{MaxPieces: 6, MaxPieceLen: 32 << 10})
		pp := &PolicyPlan{Layout: l, Net: netCfg(r), Dur: r.Dur(2*time.Minute, 6*time.Minute)}
		k := Knobs{DisableOutgoingEncryption: true, PeerConnectTimeout: time.Second}
		k.DHTEnabled = r.Chance(0.7)
		k.PEXDisabled = r.Chance(0.2)
		k.TrackerMinAnnounceInterval = 10 * time.Second
		if private {
			pp.Layout.Private = simrt.Pick(r, []string{"i1e", "i1e", "1:1", "i2e", "i-1e", "3:yes", "le", "de", "1:0", "i0e", "0:"})
			k.PrivatePeerIDPrefix = simrt.Pick(r, []string{"", "-PV1234-", "-XX0001-"})
			k.PrivateClientVersion = simrt.Pick(r, []string{"", "PrivateClient 9.9"})
			k.PrivateUserAgent = simrt.Pick(r, []string{"", "PrivateUA/1.0"})
			pp.Magnet = r.Chance(0.2)
		}
		pp.ExtAgain = r.Chance(0.3)
		if r.Chance(0.4) {
			pp.Churn = true
			k.MaxPeerAddresses = r.Range(2, 6)
			k.MaxPeerDial = r.Range(1, 2)
			k.PeerConnectTimeout = r.Dur(2*time.Second, 6*time.Second)
		}
		pp.K = k
		// address plan: candidates live in 20.0.0.0/8 so that rules can target them
		nc := r.Range(3, 10)
		vias := []string{"tracker", "pex", "dht", "manual", "incoming"}
		for i := 0; i < nc; i++ {
			c := Candidate{Name: fmt.Sprintf("c%d", i), IP: fmt.Sprintf("20.%d.%d.%d", r.Range(0, 3), r.Range(0, 3), r.Range(1, 250)), Port: r.Range(1024, 60000), Via: simrt.Pick(r, vias), At: r.Dur(0, pp.Dur/2), Kind: "seed"}
			switch r.Intn(12) {
			case 0:
				c.Port = 0
				if c.Via == "incoming" {
					c.Via = "tracker"
				}
			case 1:
				c.Kind = "self"
				if c.Via == "incoming" {
					c.Via = "pex"
				}
			case 2:
				c.Kind = "corrupt"
			}
			dup := false
			for _, o := range pp.Cands {
				if o.IP == c.IP {
					dup = true
				}
			}
			if !dup {
				pp.Cands = append(pp.Cands, c)
			}
		}
		if !private || r.Chance(0.5) {
			// block stages
			mk := func() []string {
				var rules []string
				for j := 0; j < r.Range(0, 8); j++ {
					switch r.Intn(8) {
					case 0:
						rules = append(rules, "# comment line")
					case 1:
						rules = append(rules, simrt.Pick(r, []string{"garbage", "300.1.1.1/8", "20.0.0.0/33", "::1/128", "20.0.0.0", ""}))
					case 2:
						rules = append(rules, fmt.Sprintf("20.%d.0.0/16", r.Range(0, 3)))
					case 3:
						rules = append(rules, fmt.Sprintf("20.%d.%d.0/24", r.Range(0, 3), r.Range(0, 3)))
					case 4:
						if len(pp.Cands) > 0 {
							rules = append(rules, simrt.Pick(r, pp.Cands).IP+"/32")
						}
					case 5:
						rules = append(rules, fmt.Sprintf("20.%d.%d.%d/%d", r.Range(0, 3), r.Range(0, 3), r.Range(0, 255), r.Range(8, 32)))
					case 6:
						rules = append(rules, simrt.Pick(r, []string{"0.0.0.0/0", "20.0.0.0/8", "21.0.0.0/8", "0.0.0.0/1"}))
					default:
						rules = append(rules, fmt.Sprintf("21.%d.0.0/%d", r.Range(0, 9), r.Range(9, 30)))
					}
				}
				return rules
			}
			t := time.Duration(0)
			for s := 0; s < r.Range(1, 4); s++ {
				rules := mk()
				if s == 0 {
					// the session does not start before a usable list was fetched
					rules = append(rules, fmt.Sprintf("21.%d.0.0/16", r.Range(10, 200)))
				}
				pp.Block = append(pp.Block, BlockStage{At: t, Rules: rules})
				t += r.Dur(15*time.Second, pp.Dur/2)
			}
			pp.BlockOut, pp.BlockIn, pp.BlockTrk = r.Chance(0.8), r.Chance(0.8), r.Chance(0.7)
		}
		pp.TrackerIPs = []string{fmt.Sprintf("21.%d.0.1", r.Range(0, 9))}
		if r.Chance(0.4) {
			pp.TrackerIPs = append(pp.TrackerIPs, fmt.Sprintf("20.%d.%d.9", r.Range(0, 3), r.Range(0, 3)))
		}
		if r.Chance(0.4) {
			pp.UDPTracker = fmt.Sprintf("21.%d.1.1", r.Range(0, 9))
		}
		return pp
	}
	Register(&Scenario{Name: "blocklist", Gen: func(r *simrt.Rand, tier string, p *Plan) { p.Policy = genPolicy(r, tier, false) },
		Run: func(env *Env, p *Plan) { RunPolicy(env, p.Policy) }})
	Register(&Scenario{Name: "private", Gen: func(r *simrt.Rand, tier string, p *Plan) { p.Policy = genPolicy(r, tier, true) },
		Run: func(env *Env, p *Plan) { RunPolicy(env, p.Policy) }})
}
