package worlds

import (
	"bytes"
	"crypto/sha1"
	"fmt"
	"math"
	"net/http"
	"os"
	"runtime"
	"testing/synctest"
	"time"

	"github.com/cenkalti/rain/v2/internal/zzsim/gen"
	"github.com/cenkalti/rain/v2/internal/zzsim/refbt"
	"github.com/cenkalti/rain/v2/internal/zzsim/simfs"
	"github.com/cenkalti/rain/v2/internal/zzsim/simnet"
	"github.com/cenkalti/rain/v2/internal/zzsim/simrt"
	"github.com/cenkalti/rain/v2/torrent"
	"go.etcd.io/bbolt"
)

// MetaMut is one edit of the decoded info dictionary (or of the encoded bytes).
type MetaMut struct {
	Kind string `json:"kind"`
	File int    `json:"file,omitempty"`
	Int  int64  `json:"int,omitempty"`
	N    int    `json:"n,omitempty"`
	Key  string `json:"key,omitempty"`
}

// MetaPlan: adversarial metainfo reaches a real session as a .torrent file, as the body of a
// torrent URL, as metadata served by a peer for a magnet link, or as the info bytes of a resume
// record; what is accepted must be well-formed and adding + starting it must terminate (C06).
type MetaPlan struct {
	Layout gen.Layout `json:"layout"`
	Muts   []MetaMut  `json:"muts"`
	Route  string     `json:"route"` // file | url | magnet | resume
	K      Knobs      `json:"knobs"`
	Start  bool       `json:"start"`
}

func mutateInfo(T *gen.Torrent, muts []MetaMut, r *simrt.Rand) []byte {
	v, _, err := gen.Bdecode(T.InfoBytes)
	if err != nil {
		panic("harness: base info does not decode: " + err.Error())
	}
	info := v.(map[string]any)
	files := func() []any {
		if fl, ok := info["files"].([]any); ok {
			return fl
		}
		return nil
	}
	var post []MetaMut
	for _, m := range muts {
		switch m.Kind {
		case "length":
			if fl := files(); len(fl) > 0 {
				if d, ok := fl[m.File%len(fl)].(map[string]any); ok {
					d["length"] = m.Int
				}
			} else {
				info["length"] = m.Int
			}
		case "piece_length":
			info["piece length"] = m.Int
		case "pieces_cut":
			if p, ok := info["pieces"].(string); ok {
				info["pieces"] = p[:max(0, len(p)-m.N)]
			}
		case "pieces_grow":
			if p, ok := info["pieces"].(string); ok {
				info["pieces"] = p + string(r.Bytes(m.N))
			}
		case "type":
			switch info[m.Key].(type) {
			case int64:
				info[m.Key] = []byte("12")
			case string, []byte:
				info[m.Key] = int64(7)
			default:
				info[m.Key] = []byte("x")
			}
		case "delete":
			delete(info, m.Key)
		case "both":
			info["length"] = int64(16384)
			if files() == nil {
				info["files"] = []any{map[string]any{"length": int64(16384), "path": []any{[]byte("a")}}}
			}
		case "files_empty":
			info["files"] = []any{}
			delete(info, "length")
		case "path":
			if fl := files(); len(fl) > 0 {
				if d, ok := fl[m.File%len(fl)].(map[string]any); ok {
					switch m.N {
					case 0:
						d["path"] = []any{}
					case 1:
						d["path"] = []any{[]byte("")}
					case 2:
						d["path"] = []byte("notalist")
					default:
						d["path"] = []any{int64(3)}
					}
				}
			}
		case "nest":
			var x any = []any{}
			for i := 0; i < m.N; i++ {
				x = []any{x}
			}
			info["zz"] = x
		case "huge_name":
			info["name"] = bytes.Repeat([]byte("n"), m.N)
		case "name_empty":
			info["name"] = []byte("")
		case "huge_consistent":
			// a well-formed description of a very large torrent: few, large pieces
			pl := int64(1) << uint(20+m.N%11) // 1 MiB .. 1 GiB
			total := m.Int
			if total <= 0 {
				total = 1<<32 + 12345
			}
			np := (total + pl - 1) / pl
			if np > 3000 {
				pl = (total + 2999) / 3000
				pl = (pl + 16383) / 16384 * 16384
				np = (total + pl - 1) / pl
			}
			info["piece length"] = pl
			info["pieces"] = string(r.Bytes(int(np) * 20))
			if fl := files(); len(fl) > 0 {
				// everything into one file of the list, the others empty
				for i, f := range fl {
					if d, ok := f.(map[string]any); ok {
						d["length"] = int64(0)
						if i == m.File%len(fl) {
							d["length"] = total
						}
					}
				}
			} else {
				info["length"] = total
			}
		case "wrap_sum":
			// four files of 2^62 bytes wrap the 64-bit sum back to the length of the rest
			if fl := files(); len(fl) > 0 {
				for k := 0; k < 4; k++ {
					fl = append(fl, map[string]any{"length": int64(1) << 62, "path": []any{fmt.Sprintf("wrap%d", k)}})
				}
				info["files"] = fl
			}
		case "many_files":
			var fl []any
			for i := 0; i < m.N; i++ {
				fl = append(fl, map[string]any{"length": int64(1), "path": []any{[]byte(fmt.Sprintf("f%d", i))}})
			}
			info["files"] = fl
			delete(info, "length")
		default:
			post = append(post, m)
		}
	}
	b := gen.Bencode(info)
	for _, m := range post {
		switch m.Kind {
		case "flip":
			for i := 0; i < m.N && len(b) > 0; i++ {
				b[r.Intn(len(b))] ^= byte(1 + r.Intn(255))
			}
		case "truncate":
			b = b[:len(b)*m.N/100]
		case "dupkey":
			// "d" + <first key/value again> + rest: a duplicated, unsorted key
			b = append([]byte("d4:name3:dup"), b[1:]...)
		case "append":
			b = append(b, r.Bytes(m.N)...)
		}
	}
	return b
}

func RunMetainfo(env *Env, plan *MetaPlan) {
	T := gen.Build(plan.Layout)
	r := env.R.Fork()
	info := mutateInfo(T, plan.Muts, r)
	for _, m := range plan.Muts {
		simrt.Count("fault.metainfo."+m.Kind, 1)
	}
	simrt.Count("fault.metainfo.route."+plan.Route, 1)
	host := env.NewHost("sut", "sut")
	fs := simfs.New("sut", env.R.Uint64())
	fs.Quota = 64 << 20
	fs.Sparse = true // huge files exist as sizes only
	sut, err := env.StartNode(host, fs, "", plan.K)
	if err != nil {
		panic("harness: cannot start SUT: " + err.Error())
	}
	meta := gen.Bencode(map[string]any{"info": gen.Raw(info), "announce": []byte("http://10.9.9.9/announce")})
	var tor *torrent.Torrent
	var aerr error
	opt := &torrent.AddTorrentOptions{ID: "tt", Stopped: true}
	simrt.Logf("metainfo route=%s muts=%+v info=%d bytes", plan.Route, plan.Muts, len(info))
	var heap0 runtime.MemStats
	runtime.ReadMemStats(&heap0)
	switch plan.Route {
	case "file":
		sut.In(func() { tor, aerr = sut.Sess.AddTorrent(bytes.NewReader(meta), opt) })
	case "url":
		wh := env.NewHost("web", "webseed")
		simrt.Enter(wh)
		ln, lerr := simnet.Listen("tcp", "0.0.0.0:80")
		simrt.Enter(nil)
		if lerr != nil {
			panic("harness: " + lerr.Error())
		}
		srv := &http.Server{Handler: http.HandlerFunc(func(rw http.ResponseWriter, rq *http.Request) { rw.Write(meta) })}
		simrt.Go(wh, func() { srv.Serve(ln) })
		defer srv.Close()
		sut.In(func() { tor, aerr = sut.Sess.AddURI("http://"+ln.Addr().String()+"/x.torrent", opt) })
	case "magnet":
		T2 := *T
		T2.InfoBytes = info
		T2.InfoHash = sha1.Sum(info)
		b := refbt.Behavior{Fast: true, Ext: true, Have: refbt.NewBits(T.NumPieces), Announce: "bitfield", MetaMode: "honest"}
		a := &PeerActor{Spec: PeerSpec{Name: "m0", B: b, Mode: "listen"}, Host: env.NewHost("m0", "peer"), T: &T2, Seed: env.R.Uint64(), NoChecks: true, NoWireChecks: true}
		a.Listen()
		a.Start()
		defer a.Stop()
		link := buildMagnet(T2.InfoHash, false, "x", nil, []string{a.Addr})
		opt.Stopped = false
		sut.In(func() { tor, aerr = sut.Sess.AddURI(link, opt) })
		if aerr == nil {
			select {
			case <-tor.NotifyMetadata():
			case <-tor.NotifyStop():
			case <-time.After(60 * time.Second):
			}
		}
	case "resume":
		sut.In(func() { tor, aerr = sut.Sess.AddTorrent(bytes.NewReader(T.MetaBytes), opt) })
		if aerr != nil {
			// the unedited base exceeds this run's configured limits: nothing to edit
			env.NonTriv = true
			env.SigAdd("route=resume base_rejected")
			sut.Close()
			return
		}
		sut.Close()
		db, derr := bbolt.Open(sut.DBPath, 0o600, nil)
		if derr != nil {
			panic("harness: " + derr.Error())
		}
		derr = db.Update(func(tx *bbolt.Tx) error {
			return tx.Bucket([]byte("torrents")).Bucket([]byte("tt")).Put([]byte("info"), info)
		})
		db.Close()
		if derr != nil {
			panic("harness: " + derr.Error())
		}
		for _, m := range plan.Muts {
			if m.Kind == "huge_consistent" {
				// Do not let the client verify gigabytes of existing (sparse) data: that work is
				// bounded by the size of the torrent, which no property limits, and not what
				// this world is about.
				for _, f := range fs.Files(sut.TorrentDir("tt") + "/") {
					fs.Delete(f)
				}
			}
		}
		sut2, serr := env.StartNode(host, fs, sut.DBPath, plan.K)
		if serr != nil {
			simrt.Logf("session refuses to start on the edited database: %v", serr)
			env.NonTriv = true
			env.SigAdd("route=resume session_error")
			return
		}
		sut = sut2
		sut.In(func() { tor = sut.Sess.GetTorrent("tt") })
		if tor == nil {
			aerr = fmt.Errorf("record rejected at load")
		}
	}
	accepted := aerr == nil && tor != nil
	simrt.Logf("metainfo accepted=%v err=%v", accepted, aerr)
	env.SigAdd("route=%s accepted=%v", plan.Route, accepted)
	env.NonTriv = true
	if !accepted {
		simrt.Count("probe.metainfo.rejected", 1)
		sut.Close()
		return
	}
	simrt.Count("probe.metainfo.accepted", 1)
	wellFormed := func(when string) {
		var st torrent.Stats
		var files []torrent.File
		var ferr error
		sut.In(func() { st = tor.Stats(); files, ferr = tor.Files() })
		if ferr != nil || st.Pieces.Total == 0 && st.PieceLength == 0 {
			return // no metadata (yet): nothing was accepted
		}
		var sum int64
		for _, f := range files {
			if f.Length() < 0 {
				simrt.Violate("C06", "accepted.negative_length", "%s: accepted metainfo has a file of length %d", when, f.Length())
			}
			if f.Length() > math.MaxInt64-sum {
				simrt.Violate("C06", "accepted.file_sum", "%s: the file lengths of the accepted metainfo add up to more than 2^63 (total reported %d)", when, st.Bytes.Total)
				return
			}
			sum += f.Length()
		}
		if st.PieceLength == 0 {
			simrt.Violate("C06", "accepted.piece_length", "%s: accepted metainfo has piece length 0", when)
			return
		}
		if st.Pieces.Total == 0 {
			simrt.Violate("C06", "accepted.no_pieces", "%s: accepted metainfo has no pieces (total %d bytes)", when, st.Bytes.Total)
		}
		if st.Bytes.Total < 0 {
			simrt.Violate("C06", "accepted.negative_total", "%s: accepted metainfo has total length %d", when, st.Bytes.Total)
		}
		want := (st.Bytes.Total + int64(st.PieceLength) - 1) / int64(st.PieceLength)
		if int64(st.Pieces.Total) != want {
			simrt.Violate("C06", "accepted.piece_count", "%s: accepted metainfo has %d piece hashes for %d bytes in pieces of %d (needs %d)", when, st.Pieces.Total, st.Bytes.Total, st.PieceLength, want)
		}
		if sut.Cfg.MaxPieces > 0 && st.Pieces.Total > sut.Cfg.MaxPieces {
			simrt.Violate("C06", "accepted.max_pieces", "%s: accepted metainfo has %d pieces, the configured limit is %d", when, st.Pieces.Total, sut.Cfg.MaxPieces)
		}
		if sum > st.Bytes.Total {
			simrt.Violate("C06", "accepted.file_sum", "%s: files add up to %d bytes, the torrent to %d", when, sum, st.Bytes.Total)
		}
	}
	wellFormed("after add")
	if plan.Start {
		sut.In(func() { tor.Start() })
		// bounded: the event loop answers, whatever the allocation does
		for i := 0; i < 20; i++ {
			time.Sleep(time.Second)
			done := make(chan struct{})
			go func() {
				sut.In(func() { tor.Stats() })
				close(done)
			}()
			select {
			case <-done:
			case <-time.After(60 * time.Second):
				simrt.Violate("C06", "start.unresponsive", "Stats() has not returned for 60s after starting the accepted torrent")
				return
			}
		}
		wellFormed("after start")
		sut.In(func() { tor.Stop() })
		time.Sleep(sut.Cfg.TrackerStopTimeout + 5*time.Second)
	}
	simrt.FreezeTrace()
	// live memory, not allocation volume (the simulation runs without a collector, so garbage
	// piles up until this explicit collection). The collection yields in a loop whose length
	// depends on real time: let every other goroutine of the bubble block first, so that no
	// scheduling decision (no seeded draw) falls into it.
	synctest.Wait()
	runtime.GC()
	var heap1 runtime.MemStats
	runtime.ReadMemStats(&heap1)
	if live := int64(heap1.HeapAlloc) - int64(heap0.HeapAlloc); live > int64(1<<30)+int64(len(info))*64 {
		simrt.Violate("C06", "memory", "after adding and starting a %d-byte metainfo the process holds %d MiB more live memory", len(info), live>>20)
	}
	sut.Close()
	_ = os.Getenv
	_ = math.MaxInt64
}

func init() {
	Register(&Scenario{Name: "metainfo", Gen: func(r *simrt.Rand, tier string, p *Plan) {
		o := gen.GenOpts{MaxPieces: 6, MaxPieceLen: 32 << 10, AllowPad: true}
		mp := &MetaPlan{Layout: gen.RandomLayout(r, o), Route: simrt.Pick(r, []string{"file", "file", "url", "magnet", "magnet", "resume"}), Start: r.Chance(0.8)}
		mp.K.MaxPieces = uint32(simrt.Pick(r, []int{0, 0, 4, 1000}))
		mp.K.MaxTorrentSize = uint(simrt.Pick(r, []int{0, 0, 4096, 1 << 20}))
		mp.K.TrackerStopTimeout = time.Second
		ints := []int64{-1, -2, math.MinInt64, math.MaxInt64, math.MaxInt64 - 5, 0, 1, 1 << 31, 1 << 32, 1 << 40, 1 << 62, 16383, 16385}
		keys := []string{"name", "piece length", "pieces", "length", "files", "private"}
		n := r.Range(0, 3)
		for i := 0; i < n; i++ {
			m := MetaMut{Kind: simrt.Pick(r, []string{"length", "length", "length", "piece_length", "piece_length", "pieces_cut", "pieces_grow", "type", "delete", "both", "files_empty", "path", "nest", "huge_consistent", "huge_consistent", "wrap_sum", "huge_name", "name_empty", "many_files", "flip", "truncate", "dupkey", "append"}), File: r.Intn(8), Int: simrt.Pick(r, ints), Key: simrt.Pick(r, keys)}
			switch m.Kind {
			case "pieces_cut", "pieces_grow":
				m.N = simrt.Pick(r, []int{1, 19, 20, 40, 20 * 1000})
			case "nest":
				m.N = simrt.Pick(r, []int{10, 1000, 100000})
			case "huge_name":
				m.N = simrt.Pick(r, []int{300, 5000, 1 << 20})
			case "many_files":
				m.N = simrt.Pick(r, []int{1, 1000, 50000})
			case "flip":
				m.N = r.Range(1, 8)
			case "truncate":
				m.N = r.Range(1, 99)
			case "append":
				m.N = r.Range(1, 100)
			case "path":
				m.N = r.Intn(4)
			case "huge_consistent":
				m.N = r.Intn(11)
				m.Int = simrt.Pick(r, []int64{1<<32 + 12345, 1 << 32, 1<<32 - 1, 1<<33 + 7, 1 << 40, 1<<31 + 1, 5 << 30})
			}
			mp.Muts = append(mp.Muts, m)
		}
		p.Meta = mp
	}, Run: func(env *Env, p *Plan) { RunMetainfo(env, p.Meta) }})
}
