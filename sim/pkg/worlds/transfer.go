package worlds

import (
	"bytes"
	"crypto/sha1"
	"encoding/hex"
	"fmt"
	"net"
	"net/url"
	"os"
	"sort"
	"strings"
	"sync"
	"time"

	"github.com/cenkalti/rain/v2/internal/zzsim/gen"
	"github.com/cenkalti/rain/v2/internal/zzsim/refbt"
	"github.com/cenkalti/rain/v2/internal/zzsim/simfs"
	"github.com/cenkalti/rain/v2/internal/zzsim/simnet"
	"github.com/cenkalti/rain/v2/internal/zzsim/simrt"
	"github.com/cenkalti/rain/v2/torrent"
)

// Step is a timed command or fault in a plan.
type Step struct {
	At   time.Duration `json:"at"`
	Kind string        `json:"kind"` // start stop verify announce partition heal ...
	Arg  string        `json:"arg,omitempty"`
	Dur  time.Duration `json:"dur,omitempty"`
}

// TransferPlan: one SUT downloads a torrent from scripted peers and web seeds.
type TransferPlan struct {
	Layout   gen.Layout    `json:"layout"`
	K        Knobs         `json:"knobs"`
	Net      simnet.Config `json:"net"`
	Peers    []PeerSpec    `json:"peers"`
	Webseeds []WebseedSpec `json:"webseeds,omitempty"`
	Steps    []Step        `json:"steps,omitempty"`
	Magnet   bool          `json:"magnet,omitempty"`
	// Magnet link details (C13 round trip): display name, base32 info-hash form, tracker tiers.
	MagnetDN     string     `json:"magnet_dn,omitempty"`
	MagnetBase32 bool       `json:"magnet_base32,omitempty"`
	MagnetTiers  [][]string `json:"magnet_tiers,omitempty"`
	// DiskWriteLatMax stretches the window in which a piece write is in flight.
	DiskWriteLatMax time.Duration `json:"disk_write_lat_max,omitempty"`
	DiskInstant     bool          `json:"disk_instant,omitempty"`
	// LiveTrackers: this many scripted HTTP trackers answer the torrent's announces.
	LiveTrackers int `json:"live_trackers,omitempty"`
	// YieldP: probability of a seeded yield before each mutex acquisition in rain (see simrt.Yield).
	YieldP     float64       `json:"yield_p,omitempty"`
	YieldSleep time.Duration `json:"yield_sleep,omitempty"`
	// API: concurrent API / RPC users (C20).
	API *APISpec `json:"api,omitempty"`
	// Limits: the C17 monitor and its extra actors.
	Limits *LimitsSpec `json:"limits,omitempty"`
	// WriteErrAt: the n-th data write (counted over the run) fails with ENOSPC before FaultsStop.
	WriteErrAt []int `json:"write_err_at,omitempty"`
	// FaultsStop: after this instant no new faults are injected and byzantine peers are shut
	// down; the liveness bound is counted from here.
	FaultsStop time.Duration `json:"faults_stop"`
	Bound      time.Duration `json:"bound"`
	// Liveness: whether completion is asserted (requires an honest, re-dialling full source).
	Liveness bool `json:"liveness"`
	// LivenessProp: property the non-completion is attributed to (default C10).
	LivenessProp string `json:"liveness_prop,omitempty"`
	// PreSeeded: the SUT already has the data (the attack hits a seeding / verifying torrent).
	PreSeeded bool `json:"pre_seeded,omitempty"`
}

// transferWorld is the running state.
type transferWorld struct {
	env   *Env
	plan  *TransferPlan
	T     *gen.Torrent
	sut   *Node
	tor   *torrent.Torrent
	dir   string
	peers []*PeerActor
	ws    []*WebseedActor

	mu          sync.Mutex
	writesBegun int
	pieceWrites map[int]int
	// who was asked for which piece (C01 ban oracle)
	askedPiece  map[int]map[string]bool
	corruptFull map[string]time.Duration // actor name -> time it finished serving a full corrupt piece alone
	bannedIPs   map[string]time.Duration // ip -> time the SUT dropped it after a hash failure
	complete    bool
	completeAt  time.Duration
	padOpened   bool
	ban         *banTracker
}

// dupTracker: C09 "simultaneous downloads of one piece stay within the end-game limit", judged on
// the wire: a peer counts as a download of piece X while the SUT has outstanding, un-cancelled
// block requests for X at it. Cancels/closes still in flight from the SUT are excluded by
// demanding that each counted peer has read everything the SUT wrote (SutCaughtUp).
type dupTracker struct {
	mu    sync.Mutex
	limit int
	act   map[*refbt.Peer]dupEntry
}
type dupEntry struct {
	piece int
	since time.Duration
}

func (d *dupTracker) onActive(p *refbt.Peer, piece int, on bool) {
	d.mu.Lock()
	defer d.mu.Unlock()
	if !on {
		delete(d.act, p)
		return
	}
	now := simrt.Now()
	d.act[p] = dupEntry{piece, now}
	n := 0
	for _, e := range d.act {
		if e.piece == piece {
			n++
		}
	}
	simrt.Count(fmt.Sprintf("probe.dup.concurrent_%d", min(n, 5)), 1)
	if n > d.limit {
		go d.recheck(piece, now)
	}
}

func (d *dupTracker) sustained(piece int, t0 time.Duration) []*refbt.Peer {
	d.mu.Lock()
	var cand []*refbt.Peer
	for q, e := range d.act {
		if e.piece == piece && e.since <= t0 {
			cand = append(cand, q)
		}
	}
	d.mu.Unlock()
	var out []*refbt.Peer
	for _, q := range cand {
		if q.SutCaughtUp() {
			out = append(out, q)
		}
	}
	return out
}

func (d *dupTracker) recheck(piece int, t0 time.Duration) {
	time.Sleep(2*time.Second + simrt.YieldSlack())
	a := d.sustained(piece, t0)
	if len(a) <= d.limit {
		return
	}
	time.Sleep(300 * time.Millisecond)
	b := d.sustained(piece, t0)
	if len(b) <= d.limit {
		return
	}
	var names []string
	for _, q := range b {
		names = append(names, q.Name)
	}
	sort.Strings(names)
	simrt.Violate("C09", "duplicate.limit", "piece %d: the SUT keeps block requests outstanding at %d peers at once (%v) for more than 2s, end-game duplicate limit is %d", piece, len(b), names, d.limit)
}

// banTracker: C01 "a peer that supplied a piece failing the hash check is disconnected and not
// reused". A scripted peer reports when one connection has delivered a whole piece in well-formed
// blocks with wrong bytes. If at that moment no other connected peer (and no web seed) could have
// completed the piece and the SUT had not announced it, the SUT must have hash-checked exactly
// this copy once it has read the last block: from then on (plus slack) the connection must be
// gone and the SUT must not request anything from that IP again until the torrent is stopped.
type banTracker struct {
	w      *transferWorld
	mu     sync.Mutex
	banned map[string]time.Duration // ip -> instant the SUT had read the whole corrupt piece
	epoch  int                      // bumped by stop commands: bans recorded before do not bind
}

func (b *banTracker) reset() {
	b.mu.Lock()
	b.banned = map[string]time.Duration{}
	b.epoch++
	b.mu.Unlock()
}

// onLog: rain's own log says it received a corrupt piece from a peer: evidence that the hash
// check of that peer's copy ran, whoever closed the connection meanwhile.
func (b *banTracker) onLog(msg string) {
	const pfx = "received corrupt piece from peer "
	i := strings.Index(msg, pfx)
	if i < 0 {
		return
	}
	f := strings.Fields(msg[i+len(pfx):])
	if len(f) == 0 {
		return
	}
	host, _, err := net.SplitHostPort(f[0])
	if err != nil {
		return
	}
	simrt.Count("probe.ban.by_log", 1)
	b.mu.Lock()
	if _, ok := b.banned[host]; !ok {
		b.banned[host] = simrt.Now()
	}
	b.mu.Unlock()
}

func (b *banTracker) onServedPiece(p *refbt.Peer, index int, corrupt bool, mark *simnet.Mark) {
	if !corrupt || len(b.w.plan.Webseeds) > 0 || p.B.HangupAfterCorrupt {
		// a peer that hangs up may have its last blocks discarded unprocessed: no inference
		return
	}
	if p.SutAnnounced(index) {
		return
	}
	// exclusivity: nobody else connected right now advertises the piece
	for _, a := range b.w.peers {
		q := a.Current()
		if q == nil || q == p || q.IsClosed() {
			continue
		}
		if q.Advertised().Has(index) {
			simrt.Count("probe.ban.not_exclusive", 1)
			return
		}
	}
	b.mu.Lock()
	epoch := b.epoch
	b.mu.Unlock()
	ip := p.Host.IP
	simrt.Count("probe.ban.corrupt_piece_served_alone", 1)
	go func() {
		// wait until the SUT has read the last block
		var at time.Duration
		for i := 0; ; i++ {
			if t, ok := mark.Consumed(); ok {
				at = t
				break
			}
			if i > 600 {
				return // stalled link: nothing to conclude
			}
			time.Sleep(100 * time.Millisecond)
		}
		time.Sleep(5*time.Second + b.w.plan.DiskWriteLatMax + simrt.YieldSlack())
		// somebody completed the piece after all (a copy that was already in the write
		// cache, a peer that came and went): then this copy may never have been checked
		if DiskState(b.w.sut.FS, b.w.dir, b.w.T, false)[index] || p.SutAnnounced(index) {
			simrt.Count("probe.ban.piece_completed_elsewhere", 1)
			return
		}
		b.mu.Lock()
		same := epoch == b.epoch
		if same {
			b.banned[ip] = at
		}
		b.mu.Unlock()
		if !same {
			return
		}
		simrt.Count("probe.ban.recorded", 1)
		if !p.IsClosed() && !p.SutAnnounced(index) {
			simrt.Violate("C01", "ban.not_disconnected", "peer %s delivered piece %d with wrong bytes (nobody else could have supplied it); %v after the SUT read the last block the connection is still open", p.Name, index, simrt.Now()-at)
		}
	}()
}

func (b *banTracker) onRequest(p *refbt.Peer, r refbt.Req) {
	b.mu.Lock()
	at, ok := b.banned[p.Host.IP]
	b.mu.Unlock()
	if ok && p.HandshakeAt > at {
		simrt.Violate("C01", "ban.reused", "the SUT requests %v from %s (%s) on a connection made %v after that address delivered a piece failing the hash check", r, p.Name, p.Host.IP, p.HandshakeAt-at)
	}
}

// RainLog receives rain's log messages when the run installed the log hook (see props).
var RainLog func(msg string)

func padPaths(t *gen.Torrent, dir string) map[string]bool {
	m := map[string]bool{}
	for i, f := range t.Files {
		if f.Pad {
			m[dir+"/"+t.FileRel(i)] = true
		}
	}
	return m
}

// fileIndexByPath maps absolute simfs paths to file indexes.
func fileIndexByPath(t *gen.Torrent, dir string) map[string]int {
	m := map[string]int{}
	for i, f := range t.Files {
		if !f.Pad {
			m[dir+"/"+t.FileRel(i)] = i
		}
	}
	return m
}

// installDiskOracle attaches the C01/C02 write oracles to the SUT's disk.
func installDiskOracle(fs *simfs.FS, t *gen.Torrent, dir string, onWrite func(ev *simfs.WriteEvent, fi int)) {
	idx := fileIndexByPath(t, dir)
	pads := padPaths(t, dir)
	var mu sync.Mutex
	inflight := 0
	prev := fs.OnWrite
	fs.OnWrite = func(ev *simfs.WriteEvent) simfs.Fault {
		var fault simfs.Fault
		if prev != nil {
			fault = prev(ev)
		}
		if !strings.HasPrefix(ev.Path, dir+"/") {
			return fault
		}
		switch ev.Phase {
		case "begin":
			if pads[ev.Path] {
				simrt.Violate("C02", "disk.padding_written", "write to padding file %s", ev.Path)
				return fault
			}
			fi, ok := idx[ev.Path]
			if !ok {
				simrt.Violate("C01", "disk.unknown_file", "write to %s which is not a file of the torrent", ev.Path)
				return fault
			}
			f := t.Files[fi]
			if ev.Off < 0 || ev.Off+int64(len(ev.Data)) > f.Length {
				simrt.Violate("C01", "disk.write_bounds", "write [%d,+%d) outside file %s of %d bytes", ev.Off, len(ev.Data), ev.Path, f.Length)
				return fault
			}
			truth := t.FileData(fi)[ev.Off : ev.Off+int64(len(ev.Data))]
			if !bytes.Equal(truth, ev.Data) {
				simrt.Violate("C01", "disk.unverified_bytes", "bytes written to %s at %d (+%d) differ from the torrent's content", ev.Path, ev.Off, len(ev.Data))
				return fault
			}
			// the write must lie inside one piece
			g0 := t.FileOff[fi] + ev.Off
			g1 := g0 + int64(len(ev.Data)) - 1
			if len(ev.Data) > 0 && g0/int64(t.PieceLen) != g1/int64(t.PieceLen) {
				simrt.Violate("C01", "disk.write_spans_pieces", "one write covers pieces %d..%d", g0/int64(t.PieceLen), g1/int64(t.PieceLen))
			}
			mu.Lock()
			inflight++
			n := inflight
			mu.Unlock()
			if n > 1 {
				simrt.Violate("C01", "disk.concurrent_piece_writes", "%d writes in flight on one torrent", n)
			}
			if onWrite != nil {
				onWrite(ev, fi)
			}
		case "end":
			mu.Lock()
			if inflight > 0 {
				inflight--
			}
			mu.Unlock()
		}
		return fault
	}
	prevOpen := fs.OnOpen
	fs.OnOpen = func(p string, flag int) error {
		if pads[p] {
			simrt.Violate("C02", "disk.padding_opened", "padding file %s opened on disk", p)
		}
		if prevOpen != nil {
			return prevOpen(p, flag)
		}
		return nil
	}
}

// checkClaim: the SUT claims piece i (to a peer, in stats, in resume data).
func checkClaim(fs *simfs.FS, dir string, t *gen.Torrent, i int, where string) {
	ok := DiskState(fs, dir, t, false)
	if !ok[i] {
		simrt.Violate("C01", "claim.not_on_disk", "piece %d claimed via %s but its bytes on disk are missing or wrong", i, where)
	}
}

func hashHex(h [20]byte) string { return hex.EncodeToString(h[:]) }

// RunTransfer executes a transfer plan.
func RunTransfer(env *Env, plan *TransferPlan) {
	simrt.SetYield(plan.YieldP, env.Seed)
	if plan.YieldSleep > 0 {
		simrt.YieldSleepMax = plan.YieldSleep
	}
	w := &transferWorld{env: env, plan: plan, pieceWrites: map[int]int{}, askedPiece: map[int]map[string]bool{}, corruptFull: map[string]time.Duration{}, bannedIPs: map[string]time.Duration{}}
	env.Net.Cfg = plan.Net
	T := gen.Build(plan.Layout)
	w.T = T

	// web seeds first (their URLs go into the metainfo)
	for i, s := range plan.Webseeds {
		wa := &WebseedActor{Spec: s, Host: env.NewHost("ws"+fmt.Sprint(i), "webseed"), T: T}
		wa.Start(env.R.Uint64())
		w.ws = append(w.ws, wa)
		T.URLList = append(T.URLList, wa.URL)
	}
	// live trackers (API stress: announcers with real replies next to stop/start/verify)
	var liveTrackers []*TrackerActor
	for i := 0; i < plan.LiveTrackers; i++ {
		iv := int64(1 + i*2)
		ta := &TrackerActor{Host: env.NewHost(fmt.Sprintf("trk%d", i), "tracker"), Name: fmt.Sprintf("trk%d", i), Script: []Reply{{Kind: "ok", Interval: &iv}}}
		ta.Peers = []string{"10.250.0.1:7001"}
		ta.Start(env.R.Uint64())
		liveTrackers = append(liveTrackers, ta)
		T.Trackers = append(T.Trackers, []string{ta.URL})
	}
	defer func() {
		for _, ta := range liveTrackers {
			ta.Stop()
		}
	}()
	T.RebuildMeta()
	if os.Getenv("SIM_DUMPPIECES") != "" {
		for _, i := range []int{33, 34, 89} {
			if i < T.NumPieces {
				d := T.Piece(i)
				simrt.Logf("DUMP piece %d first %v sha %v", i, d[:8], sha1.Sum(d))
			}
		}
	}

	sutHost := env.NewHost("sut", "sut")
	fs := simfs.New("sut", env.R.Uint64())
	if plan.DiskWriteLatMax > 0 {
		fs.WriteLat[1] = plan.DiskWriteLatMax
	}
	if plan.DiskInstant {
		// writes that cost no simulated time (a page cache): whether a write result or the rest
		// of the event loop's work comes first is then the seeded scheduler's decision
		fs.WriteLat = [2]time.Duration{0, 0}
	}
	sut, err := env.StartNode(sutHost, fs, "", plan.K)
	if err != nil {
		panic("harness: cannot start SUT: " + err.Error())
	}
	w.sut = sut

	// scripted peers that listen are created first: a magnet link may name them (x.pe)
	var magnetPeers []string
	type pre struct {
		host *simrt.Host
		a    *PeerActor
	}
	prePeers := map[string]*PeerActor{}
	for _, ps := range plan.Peers {
		if ps.Mode == "listen" {
			a := &PeerActor{Spec: ps, Host: env.NewHost(ps.Name, "peer"), T: T, Seed: env.R.Uint64()}
			a.Listen()
			prePeers[ps.Name] = a
			if plan.Magnet && ps.Via == "magnet" {
				magnetPeers = append(magnetPeers, a.Addr)
			}
		}
	}
	// add the torrent (stopped), then wire oracles, then start
	opt := &torrent.AddTorrentOptions{ID: "tt", Stopped: true, Sequential: plan.K.Sequential}
	var link string
	if plan.Magnet {
		link = buildMagnet(T.InfoHash, plan.MagnetBase32, plan.MagnetDN, plan.MagnetTiers, magnetPeers)
		simrt.Logf("magnet link %s", link)
	}
	sut.In(func() {
		if plan.Magnet {
			w.tor, err = sut.Sess.AddURI(link, opt)
		} else {
			w.tor, err = sut.Sess.AddTorrent(bytes.NewReader(T.MetaBytes), opt)
		}
	})
	if err != nil {
		// The generator only produces layouts rain must accept.
		simrt.Violate("C10", "add.rejected", "valid torrent rejected: %v", err)
		return
	}
	w.dir = sut.TorrentDir("tt")
	if plan.PreSeeded && !plan.Magnet {
		for fi, f := range T.Files {
			if !f.Pad {
				fs.Put(w.dir+"/"+T.FileRel(fi), T.FileData(fi))
			}
		}
	}
	if len(plan.WriteErrAt) > 0 {
		errAt := map[int]bool{}
		for _, n := range plan.WriteErrAt {
			errAt[n] = true
		}
		nw := 0
		fs.OnWrite = func(ev *simfs.WriteEvent) simfs.Fault {
			if ev.Phase != "begin" || !strings.HasPrefix(ev.Path, w.dir+"/") {
				return simfs.Fault{}
			}
			nw++
			if errAt[nw] && simrt.Now() < plan.FaultsStop {
				simrt.Count("fault.disk.write_error", 1)
				simrt.Logf("inject write error at data write #%d (%s@%d)", nw, ev.Path, ev.Off)
				return simfs.Fault{Err: fmt.Errorf("no space left on device")}
			}
			return simfs.Fault{}
		}
	}
	installDiskOracle(fs, T, w.dir, func(ev *simfs.WriteEvent, fi int) {
		w.mu.Lock()
		w.writesBegun++
		w.mu.Unlock()
	})

	lim := refbt.Limits{MaxRequestsOut: sut.Cfg.MaxRequestsOut, DefaultRequestsOut: sut.Cfg.DefaultRequestsOut}
	dup := &dupTracker{limit: max(1, sut.Cfg.EndgameMaxDuplicateDownloads), act: map[*refbt.Peer]dupEntry{}}
	w.ban = &banTracker{w: w, banned: map[string]time.Duration{}}
	RainLog = w.ban.onLog
	hooks := func(a *PeerActor) refbt.Hooks {
		return refbt.Hooks{
			OnActive:      dup.onActive,
			OnServedPiece: w.ban.onServedPiece,
			OnHave:        func(p *refbt.Peer, i int) { checkClaim(fs, w.dir, T, i, "have/bitfield to "+p.Name) },
			OnRequest: func(p *refbt.Peer, r refbt.Req) {
				w.ban.onRequest(p, r)
				w.mu.Lock()
				m := w.askedPiece[int(r.Index)]
				if m == nil {
					m = map[string]bool{}
					w.askedPiece[int(r.Index)] = m
				}
				m[a.Spec.Name] = true
				w.mu.Unlock()
			},
		}
	}
	sutAddr := func() string {
		port := w.tor.Port()
		addr := fmt.Sprintf("%s:%d", sutHost.IP, port)
		if env.Net.Listening(addr) {
			return addr
		}
		return ""
	}
	stopMonMeta := make(chan struct{})
	if plan.Magnet {
		checkMagnetRoundTrip(w.tor, sut, T.InfoHash, plan.MagnetDN, plan.MagnetTiers, magnetPeers, "after add")
		// no peer can make the torrent give up: an error stop while the metadata is still
		// missing (layouts here are public and well-formed) is a failed fetch
		go func() {
			for {
				var st torrent.Stats
				sut.In(func() { st = w.tor.Stats() })
				if st.Pieces.Total > 0 || st.PieceLength > 0 {
					return // metadata adopted
				}
				if st.Status == torrent.Stopped && st.Error != nil {
					simrt.Violate("C13", "metadata.torrent_stopped", "the torrent stopped with %q while fetching metadata although an honest peer offers it", st.Error)
					return
				}
				select {
				case <-stopMonMeta:
					return
				case <-time.After(300 * time.Millisecond):
				}
			}
		}()
		go func() {
			<-w.tor.NotifyMetadata()
			simrt.Logf("SUT reports metadata")
			checkAdoptedMetadata(w.tor, sut, T.InfoHash)
			checkMagnetRoundTrip(w.tor, sut, T.InfoHash, plan.MagnetDN, plan.MagnetTiers, magnetPeers, "after metadata")
		}()
	}
	for _, ps := range plan.Peers {
		a := prePeers[ps.Name]
		if a == nil {
			a = &PeerActor{Spec: ps, Host: env.NewHost(ps.Name, "peer"), T: T, Seed: env.R.Uint64()}
		}
		a.Lim, a.SutAddr = lim, sutAddr
		// oracle parameters come from the configuration the SUT really runs with, not from
		// the plan (a minimised plan may have dropped the knob)
		a.Spec.B.MetaLimit = int(sut.Cfg.MaxMetadataSize)
		if a.Spec.B.HostileSpec != nil {
			hs := *a.Spec.B.HostileSpec
			hs.Max = uint32(sut.Cfg.MaxMetadataSize)
			a.Spec.B.HostileSpec = &hs
		}
		a.Hooks = hooks(a)
		a.Start()
		w.peers = append(w.peers, a)
		if ps.Mode == "listen" && ps.Via != "magnet" && ps.Via != "none" {
			a := a
			go func() {
				if d := a.Spec.At - simrt.Now(); d > 0 {
					time.Sleep(d)
				}
				sut.In(func() { w.tor.AddPeer(a.Addr) })
			}()
		}
	}

	// C12 policy clause against plaintext-only scripted peers: a session that forces encryption
	// must never put a BitTorrent handshake on the wire in the clear
	type encTap struct{ first [2][]byte }
	var encMu sync.Mutex
	encTaps := map[*simnet.Pair]*encTap{}
	if sut.Cfg.ForceOutgoingEncryption || sut.Cfg.ForceIncomingEncryption {
		env.Net.OnConnect = func(p *simnet.Pair) {
			if p.HostA != sutHost && p.HostB != sutHost {
				return
			}
			et := &encTap{}
			encMu.Lock()
			encTaps[p] = et
			encMu.Unlock()
			p.Tap = func(dir int, b []byte) {
				encMu.Lock()
				if len(et.first[dir]) < 20 {
					et.first[dir] = append(et.first[dir], b[:min(len(b), 20-len(et.first[dir]))]...)
				}
				f0, f1 := et.first[0], et.first[1]
				encMu.Unlock()
				sutDir := 0
				if p.HostB == sutHost {
					sutDir = 1
				}
				if dir != sutDir {
					return
				}
				mine := f0
				if sutDir == 1 {
					mine = f1
				}
				if len(mine) >= 20 && string(mine[:20]) == btProto {
					other := p.HostB
					if sutDir == 1 {
						other = p.HostA
					}
					if other != nil && (other.Role == "peer" || other.Role == "leecher") {
						if sutDir == 0 && sut.Cfg.ForceOutgoingEncryption {
							simrt.Violate("C12", "policy.forced_out_plaintext", "the SUT forces outgoing encryption but wrote a plaintext BitTorrent handshake on a connection it opened to %s", other.Name)
						}
						if sutDir == 1 && sut.Cfg.ForceIncomingEncryption {
							simrt.Violate("C12", "policy.forced_in_answered_plaintext", "the SUT forces incoming encryption but answered %s's plaintext handshake with its own", other.Name)
						}
					}
				}
			}
		}
	}
	defer close(stopMonMeta)
	var apiClients []*apiClient
	if plan.API != nil {
		apiClients = w.startAPIClients()
	}
	var limMon *limitsMon
	if plan.Limits != nil {
		limMon = w.startLimits(sutAddr)
	}
	// completion watcher
	compC := w.tor.NotifyComplete()
	go func() {
		<-compC
		w.mu.Lock()
		w.complete = true
		w.completeAt = simrt.Now()
		w.mu.Unlock()
		simrt.Logf("SUT reports completion")
		w.checkComplete("NotifyComplete")
	}()

	sut.In(func() { w.tor.Start() })

	// timed steps
	steps := append([]Step(nil), plan.Steps...)
	sort.SliceStable(steps, func(i, j int) bool { return steps[i].At < steps[j].At })
	go func() {
		for _, s := range steps {
			if d := s.At - simrt.Now(); d > 0 {
				time.Sleep(d)
			}
			w.doStep(s)
		}
	}()

	// monitor
	stopMon := make(chan struct{})
	go w.monitor(stopMon)

	// faults stop: silence byzantine actors
	deadline := plan.FaultsStop + plan.Bound
	go func() {
		if d := plan.FaultsStop - simrt.Now(); d > 0 {
			time.Sleep(d)
		}
		simrt.Logf("faults stop")
		for _, a := range w.peers {
			if !a.Spec.Honest && !a.Spec.Stays {
				a.Stop()
			}
		}
		for _, wa := range w.ws {
			if !wa.Spec.Honest {
				wa.mu.Lock()
				wa.Spec.Mode = "404"
				wa.Spec.FaultP = 1
				wa.Spec.FaultUntil = 0
				wa.mu.Unlock()
			}
		}
		// Make sure the torrent is running. A Start() issued while the torrent is still
		// "Stopping" is dropped by rain (that is C04's business, found by the lifecycle
		// world); completion can only be demanded of a torrent that was really started.
		for i := 0; i < 60; i++ {
			sut.In(func() { w.tor.Start() })
			time.Sleep(time.Second)
			if s := w.stats().Status; s != torrent.Stopped && s != torrent.Stopping {
				break
			}
			simrt.Count("probe.transfer.start_retried", 1)
		}
	}()

	// wait for completion or deadline
	for simrt.Now() < deadline {
		w.mu.Lock()
		c := w.complete
		w.mu.Unlock()
		if c && simrt.Now() >= plan.FaultsStop {
			break
		}
		time.Sleep(500 * time.Millisecond)
	}
	close(stopMon)
	w.mu.Lock()
	complete := w.complete
	w.mu.Unlock()
	st := w.stats()
	env.Stats["complete"] = complete
	env.Stats["complete_at"] = w.completeAt.Seconds()
	env.Stats["pieces"] = T.NumPieces
	env.Stats["files"] = len(T.Files)
	env.Stats["piece_len"] = T.PieceLen
	env.Stats["status"] = st.Status.String()
	env.Stats["have"] = st.Pieces.Have
	env.Stats["writes"] = w.writesBegun
	hasSource := false
	// an honest peer is a source only if it can get a connection slot: peers that stall and
	// stay connected beyond "faults stop" keep theirs (the client does not drop a peer for
	// being useless), and with as many of them as MaxPeerAccept / MaxPeerDial allows an honest
	// peer arriving the same way is turned away for good
	staying := map[string]int{}
	for _, ps := range plan.Peers {
		if ps.Stays && !ps.Honest {
			staying[ps.Mode]++
		}
	}
	for _, ps := range plan.Peers {
		limit := sut.Cfg.MaxPeerDial
		if ps.Mode == "dial" {
			limit = sut.Cfg.MaxPeerAccept
		}
		if ps.Honest && staying[ps.Mode] >= limit {
			simrt.Count("probe.transfer.honest_peer_without_slot", 1)
			continue
		}
		hasSource = hasSource || ps.Honest
	}
	for _, ws := range plan.Webseeds {
		hasSource = hasSource || ws.Honest
	}
	if plan.Magnet && sut.Cfg.MaxMetadataSize > 0 && len(T.InfoBytes) > int(sut.Cfg.MaxMetadataSize) {
		// the torrent's own metadata is over the configured limit: the client must refuse it
		if hasSource {
			simrt.Count("probe.transfer.liveness_skipped_metadata_over_limit", 1)
		}
		hasSource = false
	}
	nStay := 0
	for _, ps := range plan.Peers {
		if ps.Stays && !ps.Honest {
			nStay++
		}
	}
	if sut.Cfg.WriteCacheSize < int64(nStay+1)*int64(T.PieceLen) {
		// every stalling peer that stays can hold the memory of one piece in flight for good (a
		// stalled download keeps its reservation, like a useless peer keeps its connection
		// slot); with no room left beyond that the honest source waits for memory forever
		if hasSource {
			simrt.Count("probe.transfer.liveness_skipped_memory_held", 1)
		}
		hasSource = false
	}
	if sut.Cfg.WriteCacheSize < int64(T.PieceLen) {
		// the configured memory for pieces in flight cannot hold one piece: nothing can ever be
		// downloaded with this configuration (rain waits; no property says otherwise)
		hasSource = false
	}
	if plan.Liveness && !complete && !hasSource {
		simrt.Count("probe.transfer.liveness_skipped_no_source", 1)
	}
	if plan.Liveness && !complete && hasSource {
		var ps []string
		sut.In(func() {
			for _, p := range w.tor.Peers() {
				ps = append(ps, fmt.Sprintf("%s dl=%v int=%v pchoke=%v snub=%v", p.Addr, p.Downloading, p.ClientInterested, p.PeerChoking, p.Snubbed))
			}
		})
		var ss torrent.SessionStats
		sut.In(func() { ss = sut.Sess.Stats() })
		lp := plan.LivenessProp
		if lp == "" {
			lp = "C10"
		}
		note := ""
		if st.Downloads.Total > 0 && st.Downloads.Running == 0 && st.Downloads.Total >= sut.Cfg.EndgameMaxDuplicateDownloads {
			note = fmt.Sprintf(" [every download is stalled (snubbed or choked) and they fill the duplicate limit %d]", sut.Cfg.EndgameMaxDuplicateDownloads)
		}
		simrt.Violate(lp, "liveness.not_complete", "download not complete %v after faults stopped: status=%s have=%d/%d peers=%v err=%v downloads=%+v writecache=%d/%d pending=%d avail=%d%s",
			plan.Bound, st.Status, st.Pieces.Have, st.Pieces.Total, ps, st.Error, st.Downloads, ss.WriteCacheSize, sut.Cfg.WriteCacheSize, ss.WriteCachePendingKeys, st.Pieces.Available, note)
	}
	if complete {
		w.checkComplete("final")
	}
	env.NonTriv = w.writesBegun > 0 || plan.PreSeeded || len(encTaps) > 0
	if limMon != nil {
		limMon.finish()
	}
	if plan.YieldP > 0 {
		simrt.Count("fault.sched.yield", simrt.Yields())
	}
	if apiClients != nil {
		time.Sleep(2 * time.Minute)
		checkAPIHang(apiClients)
	}
	env.SigAdd("np=%d nf=%d pl=%d peers=%d ws=%d", T.NumPieces, len(T.Files), T.PieceLen, len(plan.Peers), len(plan.Webseeds))
	simrt.FreezeTrace()
	for _, a := range w.peers {
		a.Stop()
	}
	for _, wa := range w.ws {
		wa.Stop()
	}
	sut.Close()
	if h := fs.OpenHandles("/"); len(h) > 0 {
		simrt.Violate("C04", "close.open_handles", "files still open after Session.Close: %v", h)
	}
}

func (w *transferWorld) stats() torrent.Stats {
	var st torrent.Stats
	w.sut.In(func() { st = w.tor.Stats() })
	return st
}

func (w *transferWorld) doStep(s Step) {
	simrt.Logf("step %s %s", s.Kind, s.Arg)
	w.env.SigAdd("step:%s", s.Kind)
	switch s.Kind {
	case "stop":
		if w.ban != nil {
			w.ban.reset()
		}
		w.sut.In(func() { w.tor.Stop() })
	case "start":
		w.sut.In(func() { w.tor.Start() })
	case "announce":
		w.sut.In(func() { w.tor.Announce() })
	case "partition":
		for _, a := range w.peers {
			if a.Spec.Name == s.Arg {
				w.env.Net.Partition(w.sut.Host.IP, a.Host.IP, true)
				simrt.Count("fault.net.partition", 1)
				ip := a.Host.IP
				time.AfterFunc(s.Dur, func() { w.env.Net.Partition(w.sut.Host.IP, ip, false) })
			}
		}
	case "reset":
		for _, a := range w.peers {
			if a.Spec.Name == s.Arg {
				if p := a.Current(); p != nil && p.Conn() != nil {
					if pc, ok := p.Conn().(interface {
						SimPair() (*simnet.Pair, int)
					}); ok {
						pair, _ := pc.SimPair()
						pair.Reset("step")
					}
				}
			}
		}
	}
}

// monitor polls the public API and evaluates cross-invariants.
func (w *transferWorld) monitor(stop chan struct{}) {
	r := w.env.R.Fork()
	for {
		select {
		case <-stop:
			return
		case <-time.After(r.Dur(50*time.Millisecond, 2*time.Second)):
		}
		st := w.stats()
		T := w.T
		ok := DiskState(w.sut.FS, w.dir, T, false)
		good := 0
		for _, b := range ok {
			if b {
				good++
			}
		}
		if int(st.Pieces.Have) > good {
			simrt.Violate("C01", "stats.have_exceeds_disk", "Stats reports %d pieces but only %d are correct on disk", st.Pieces.Have, good)
		}
		if st.Pieces.Total != 0 && int(st.Pieces.Total) != T.NumPieces {
			simrt.Violate("C02", "stats.piece_count", "Stats reports %d pieces, the torrent has %d", st.Pieces.Total, T.NumPieces)
		}
		if st.Bytes.Total != 0 && st.Bytes.Total != T.Total {
			simrt.Violate("C02", "stats.total_bytes", "Stats reports %d total bytes, the torrent has %d", st.Bytes.Total, T.Total)
		}
		if st.Status == torrent.Seeding {
			w.checkComplete("status Seeding")
		}
		// C09: reported availability = pieces held by >= 1 connected scripted peer
		if st.Status == torrent.Downloading {
			w.checkAvailability(st)
		}
	}
}

func (w *transferWorld) checkAvailability(st torrent.Stats) {
	// Sound only when every scripted peer's view is settled: compare against the union of
	// what connected peers advertised, allowing peers whose connection state is in flux.
	var sure, maybe = refbt.NewBits(w.T.NumPieces), refbt.NewBits(w.T.NumPieces)
	inFlux := false
	var sutPeers []torrent.Peer
	w.sut.In(func() { sutPeers = w.tor.Peers() })
	connected := map[string]bool{}
	for _, p := range sutPeers {
		connected[p.Addr.String()] = true
	}
	_ = connected
	for _, a := range w.peers {
		p := a.Current()
		if p == nil {
			continue
		}
		adv := p.Advertised()
		if p.IsClosed() {
			// closed; the SUT may not have noticed yet unless that was a while ago
			if simrt.Now()-p.ClosedAt < 150*time.Second {
				inFlux = true
			}
			continue
		}
		if !p.Settled() {
			inFlux = true
		}
		for i := 0; i < w.T.NumPieces; i++ {
			if adv.Has(i) {
				maybe.Set(i)
				if p.Settled() {
					sure.Set(i)
				}
			}
		}
	}
	if inFlux {
		return
	}
	// all peers settled: availability must equal |sure| — but only peers the SUT counts as
	// connected contribute; a peer whose handshake the SUT has not finished is in flux too.
	n := sure.Count(w.T.NumPieces)
	if len(sutPeers) != w.settledPeerCount() {
		return
	}
	if int(st.Pieces.Available) != n {
		simrt.Count("probe.c09.availability_mismatch_candidate", 1)
		// re-sample to exclude a message in flight between the two observations
		st2 := w.stats()
		var again []torrent.Peer
		w.sut.In(func() { again = w.tor.Peers() })
		if len(again) == len(sutPeers) && st2.Pieces.Available == st.Pieces.Available && w.settledPeerCount() == len(again) && st2.Status == torrent.Downloading {
			simrt.Violate("C09", "availability.count", "Stats reports %d available pieces, connected peers advertise %d distinct pieces", st.Pieces.Available, n)
		}
	}
}

func (w *transferWorld) settledPeerCount() int {
	n := 0
	for _, a := range w.peers {
		if p := a.Current(); p != nil && !p.IsClosed() && p.Settled() {
			n++
		}
	}
	return n
}

// checkComplete: when completion is reported every file must equal the ground truth and
// nothing else may exist in the torrent's directory.
func (w *transferWorld) checkComplete(where string) {
	T := w.T
	want := map[string]bool{}
	for i, f := range T.Files {
		if f.Pad {
			continue
		}
		p := w.dir + "/" + T.FileRel(i)
		want[p] = true
		got, ok := w.sut.FS.Get(p)
		if !ok {
			if f.Length == 0 {
				// zero-length files must still be created
				simrt.Violate("C01", "complete.file_missing", "%s: completion reported but empty file %s does not exist", where, p)
			} else {
				simrt.Violate("C01", "complete.file_missing", "%s: completion reported but %s does not exist", where, p)
			}
			return
		}
		if !bytes.Equal(got, T.FileData(i)) {
			simrt.Violate("C01", "complete.file_differs", "%s: completion reported but %s differs from the torrent's content (len %d vs %d)", where, p, len(got), f.Length)
			return
		}
	}
	for _, p := range w.sut.FS.Files(w.dir) {
		if !want[p] {
			simrt.Violate("C01", "complete.extra_file", "%s: unexpected file %s in the torrent directory", where, p)
		}
	}
}

// ---- magnet helpers (own encoder/parser, independent of rain's magnet package) -------

func base32Std(b []byte) string {
	const alpha = "ABCDEFGHIJKLMNOPQRSTUVWXYZ234567"
	var out []byte
	var acc uint64
	bits := 0
	for _, c := range b {
		acc = acc<<8 | uint64(c)
		bits += 8
		for bits >= 5 {
			out = append(out, alpha[(acc>>(uint(bits)-5))&31])
			bits -= 5
		}
	}
	if bits > 0 {
		out = append(out, alpha[(acc<<(5-uint(bits)))&31])
	}
	return string(out)
}

func buildMagnet(ih [20]byte, b32 bool, dn string, tiers [][]string, peers []string) string {
	var sb strings.Builder
	sb.WriteString("magnet:?xt=urn:btih:")
	if b32 {
		sb.WriteString(base32Std(ih[:]))
	} else {
		sb.WriteString(hashHex(ih))
	}
	if dn != "" {
		sb.WriteString("&dn=" + url.QueryEscape(dn))
	}
	for i, t := range tiers {
		if len(t) == 1 {
			sb.WriteString("&tr=" + url.QueryEscape(t[0]))
		} else {
			for _, tr := range t {
				sb.WriteString(fmt.Sprintf("&tr.%d=%s", i, url.QueryEscape(tr)))
			}
		}
	}
	for _, p := range peers {
		sb.WriteString("&x.pe=" + p)
	}
	return sb.String()
}

func tierKey(t []string) string {
	c := append([]string(nil), t...)
	sort.Strings(c)
	return strings.Join(c, "|")
}

// checkMagnetRoundTrip: the link the client exports parses back (with an independent
// parser) to the same info-hash, name, tracker tiers (each tier as a set) and peers.
func checkMagnetRoundTrip(tor *torrent.Torrent, sut *Node, ih [20]byte, dn string, tiers [][]string, peers []string, when string) {
	var link string
	var err error
	sut.In(func() { link, err = tor.Magnet() })
	if err != nil {
		simrt.Violate("C13", "magnet.export_error", "%s: Magnet() failed for a public torrent: %v", when, err)
		return
	}
	u, perr := url.Parse(link)
	if perr != nil || u.Scheme != "magnet" {
		simrt.Violate("C13", "magnet.roundtrip", "%s: exported link %q does not parse as a magnet URI: %v", when, link, perr)
		return
	}
	q := u.Query()
	xt := q.Get("xt")
	if !strings.EqualFold(xt, "urn:btih:"+hashHex(ih)) && xt != "urn:btih:"+base32Std(ih[:]) {
		simrt.Violate("C13", "magnet.roundtrip", "%s: exported link carries xt=%q, the torrent's info-hash is %s", when, xt, hashHex(ih))
	}
	wantName := dn
	var name string
	sut.In(func() { name = tor.Name() })
	if wantName != "" && q.Get("dn") != name {
		simrt.Violate("C13", "magnet.roundtrip", "%s: exported dn=%q, torrent name %q", when, q.Get("dn"), name)
	}
	// tiers as a multiset of sets (only trackers the client supports: http, https, udp)
	want := map[string]int{}
	for _, t := range tiers {
		want[tierKey(t)]++
	}
	got := map[string]int{}
	for _, tr := range q["tr"] {
		got[tierKey([]string{tr})]++
	}
	for k, v := range q {
		if strings.HasPrefix(k, "tr.") {
			got[tierKey(v)]++
		}
	}
	for k, n := range want {
		if got[k] != n {
			simrt.Violate("C13", "magnet.roundtrip", "%s: tracker tiers differ: link was built with %v, exported link has %v", when, want, got)
			break
		}
	}
	if len(got) != len(want) {
		simrt.Violate("C13", "magnet.roundtrip", "%s: tracker tiers differ: link was built with %v, exported link has %v", when, want, got)
	}
	gp := append([]string(nil), q["x.pe"]...)
	wp := append([]string(nil), peers...)
	sort.Strings(gp)
	sort.Strings(wp)
	if strings.Join(gp, ",") != strings.Join(wp, ",") {
		simrt.Violate("C13", "magnet.roundtrip", "%s: peers differ: link was built with %v, exported link has %v", when, wp, gp)
	}
	simrt.Count("probe.magnet.roundtrip_checked", 1)
}

// checkAdoptedMetadata: whatever the peers sent, the metadata the client adopted hashes to
// the info-hash of the link.
func checkAdoptedMetadata(tor *torrent.Torrent, sut *Node, ih [20]byte) {
	var b []byte
	var err error
	sut.In(func() { b, err = tor.Torrent() })
	if err != nil {
		simrt.Violate("C13", "metadata.not_exportable", "NotifyMetadata fired but Torrent() fails: %v", err)
		return
	}
	d, derr := gen.RawDict(b)
	if derr != nil || d["info"] == nil {
		simrt.Violate("C13", "metadata.not_exportable", "Torrent() returned bytes without an info dictionary: %v", derr)
		return
	}
	if h := sha1.Sum(d["info"]); h != ih {
		simrt.Violate("C13", "metadata.hash_mismatch", "adopted metadata hashes to %x, the magnet link says %x", h, ih)
	}
	simrt.Count("probe.magnet.metadata_adopted", 1)
}
