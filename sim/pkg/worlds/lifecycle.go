package worlds

import (
	"bytes"
	"fmt"
	"strings"
	"sync"
	"time"

	"github.com/cenkalti/rain/v2/internal/zzsim/gen"
	"github.com/cenkalti/rain/v2/internal/zzsim/refbt"
	"github.com/cenkalti/rain/v2/internal/zzsim/simfs"
	"github.com/cenkalti/rain/v2/internal/zzsim/simnet"
	"github.com/cenkalti/rain/v2/internal/zzsim/simrt"
	"github.com/cenkalti/rain/v2/torrent"
)

// Cmd is one user command or external file mutation of a lifecycle plan.
type Cmd struct {
	Gap  time.Duration `json:"gap"` // fake time since the previous command
	Kind string        `json:"kind"`
	// start stop verify announce addpeer addpeer_host addtracker stats peers trackers webseeds
	// corrupt truncate delete delete_all (file mutations: applied only while Stopped)
	// crash (C05: snapshot now and boot a second session on the durable image)
	N   int    `json:"n,omitempty"`   // piece / file ordinal for mutations
	Arg string `json:"arg,omitempty"` // crash: "", "del_some", "del_all"
}

type LifePlan struct {
	// Extras: additional listening peers whose addresses are added with every addpeer command
	// (more addresses than MaxPeerDial slots keep the client's address list non-empty).
	Extras int           `json:"extras,omitempty"`
	Layout gen.Layout    `json:"layout"`
	K      Knobs         `json:"knobs"`
	Net    simnet.Config `json:"net"`
	Cmds   []Cmd         `json:"cmds"`
	Seed   PeerSpec      `json:"seed"`
	// Tracker: an HTTP tracker whose replies take TrackerDelay (stretches the Stopping state).
	Tracker      bool          `json:"tracker,omitempty"`
	TrackerDelay time.Duration `json:"tracker_delay,omitempty"`
	DiskWriteLat time.Duration `json:"disk_write_lat,omitempty"`
	DiskReadLat  time.Duration `json:"disk_read_lat,omitempty"`
	DiskOpenLat  time.Duration `json:"disk_open_lat,omitempty"`
	// WriteErrAt > 0: the n-th data write fails with ENOSPC/EIO (injected disk fault).
	WriteErrAt int `json:"write_err_at,omitempty"`
	// OpenErrAt > 0: the n-th open of a data file fails once (the allocation of that start ends
	// with an error, possibly after it has already recreated files that were missing).
	OpenErrAt int `json:"open_err_at,omitempty"`
	// NoTruth: skip the C04 truthfulness monitor (the crash world: a run must reach its crash).
	NoTruth bool `json:"no_truth,omitempty"`
	// CrashAtWrite / CrashPhase: C05 — take crash snapshots at these write gates.
	CrashAtWrite []int  `json:"crash_at_write,omitempty"`
	CrashPhase   string `json:"crash_phase,omitempty"`
	CrashDel     string `json:"crash_del,omitempty"`
	PreSeeded    bool   `json:"pre_seeded,omitempty"` // data already on disk when the torrent is added
	Converge     bool   `json:"converge"`
}

type lifeWorld struct {
	env    *Env
	plan   *LifePlan
	T      *gen.Torrent
	sut    *Node
	tor    *torrent.Torrent
	dir    string
	extras []*PeerActor
	// open-error fault aimed at an allocation that follows a deletion (see OnOpen)
	openErrArmed, armedStart, sawMissing bool
	seed                                 *PeerActor

	mu             sync.Mutex
	tainted        map[int]bool // pieces whose content was silently changed since the last verification
	lastStateCmd   time.Duration
	lastCmdKind    string
	crashN         int
	sutHost        *simrt.Host
	writes         int
	removed        bool
	trackerURL     string
	noFaults       bool
	crashWG        sync.WaitGroup
	verifyInFlight bool
	verifyAt       time.Duration
	lastWriteEnd   time.Duration // when the latest data write by the SUT finished
}

// api runs f (a public API call) and reports a violation if it does not return in time.
func (w *lifeWorld) api(name string, f func()) bool {
	done := make(chan struct{})
	go func() {
		w.sut.In(f)
		close(done)
	}()
	select {
	case <-done:
		return true
	case <-time.After(75 * time.Second):
		simrt.Violate("C04", "api.hang", "%s did not return within 75 s of simulated time", name)
		return false
	}
}

func (w *lifeWorld) stats() (st torrent.Stats) {
	w.api("Stats", func() { st = w.tor.Stats() })
	return
}

func piecesOfFile(t *gen.Torrent, fi int) []int {
	a, b := t.PiecesOfFile(fi)
	var out []int
	for i := a; i <= b; i++ {
		out = append(out, i)
	}
	return out
}

// truth evaluates the truthfulness invariants on a Stats sample.
func (w *lifeWorld) truth(st torrent.Stats, where string) {
	T := w.T
	if w.plan.NoTruth {
		return
	}
	ok := DiskState(w.sut.FS, w.dir, T, false)
	w.mu.Lock()
	tainted := len(w.tainted)
	good := 0
	for i, b := range ok {
		if b || w.tainted[i] {
			good++
		}
	}
	allGood := good == T.NumPieces
	w.mu.Unlock()
	if st.Status == torrent.Seeding && !allGood {
		simrt.Violate("C04", "truth.seeding_incomplete", "%s: status Seeding but only %d of %d pieces are present and correct on disk (%d silently corrupted ones excluded)", where, good, T.NumPieces, tainted)
	}
	if int(st.Pieces.Have) > good && (st.Status == torrent.Downloading || st.Status == torrent.Seeding) {
		simrt.Violate("C04", "truth.have_exceeds_disk", "%s: status %s reports %d pieces, only %d are correct on disk", where, st.Status, st.Pieces.Have, good)
	}
	if st.Status == torrent.Stopped {
		var peers []torrent.Peer
		w.api("Peers", func() { peers = w.tor.Peers() })
		if len(peers) > 0 {
			simrt.Violate("C04", "truth.stopped_with_peers", "%s: status Stopped with %d peers", where, len(peers))
		}
		if st.Peers.Total != 0 || st.Downloads.Total != 0 || st.Handshakes.Total != 0 {
			simrt.Violate("C04", "truth.stopped_active", "%s: status Stopped with peers=%d downloads=%d handshakes=%d", where, st.Peers.Total, st.Downloads.Total, st.Handshakes.Total)
		}
		if h := w.sut.FS.OpenHandles(w.dir); len(h) > 0 {
			// re-sample: an allocator being shut down closes its files just after the state flips
			time.Sleep(200 * time.Millisecond)
			st2 := w.stats()
			if h2 := w.sut.FS.OpenHandles(w.dir); len(h2) > 0 && st2.Status == torrent.Stopped {
				simrt.Violate("C04", "truth.stopped_open_files", "%s: status Stopped with open data files %v", where, h2)
			}
		}
		for _, p := range w.env.Net.Pairs() {
			sutSide := -1
			if p.HostA == w.sutHost {
				sutSide = 0
			} else if p.HostB == w.sutHost {
				sutSide = 1
			}
			other := p.HostB
			if sutSide == 1 {
				other = p.HostA
			}
			if sutSide >= 0 && other.Role == "peer" && !p.Closed(sutSide) && !p.Closed(1-sutSide) {
				time.Sleep(200 * time.Millisecond)
				if w.stats().Status == torrent.Stopped && !p.Closed(sutSide) && !p.Closed(1-sutSide) {
					simrt.Violate("C04", "truth.stopped_open_conn", "%s: status Stopped but peer connection #%d to %s is still open", where, p.ID, other.Name)
				}
			}
		}
	}
	// completed bytes consistent with pieces held
	if st.Pieces.Total > 0 {
		pl := int64(T.PieceLen)
		last := int64(T.PieceSize(T.NumPieces - 1))
		h := int64(st.Pieces.Have)
		a, b := h*pl, (h-1)*pl+last
		if st.Bytes.Completed != a && !(h > 0 && st.Bytes.Completed == b) && st.Bytes.Completed != 0 {
			simrt.Violate("C04", "truth.completed_bytes", "%s: Bytes.Completed=%d inconsistent with %d pieces held (piece length %d, last %d)", where, st.Bytes.Completed, h, pl, last)
		}
		if st.Bytes.Completed > T.Total {
			simrt.Violate("C04", "truth.completed_bytes", "%s: Bytes.Completed=%d exceeds the torrent size %d", where, st.Bytes.Completed, T.Total)
		}
	}
}

func RunLifecycle(env *Env, plan *LifePlan) {
	w := &lifeWorld{env: env, plan: plan, tainted: map[int]bool{}}
	env.Net.Cfg = plan.Net
	T := gen.Build(plan.Layout)
	w.T = T
	var tracker *TrackerActor
	if plan.Tracker {
		tracker = &TrackerActor{Host: env.NewHost("tr0", "tracker"), Delay: plan.TrackerDelay}
		tracker.Start(env.R.Uint64())
		T.Trackers = [][]string{{tracker.URL}}
		T.RebuildMeta()
		w.trackerURL = tracker.URL
	}
	w.sutHost = env.NewHost("sut", "sut")
	fs := simfs.New("sut", env.R.Uint64())
	if plan.DiskWriteLat > 0 {
		fs.WriteLat[1] = plan.DiskWriteLat
	}
	if plan.DiskReadLat > 0 {
		fs.ReadLat[1] = plan.DiskReadLat
	}
	if plan.DiskOpenLat > 0 {
		fs.OpenLat[1] = plan.DiskOpenLat
	}
	sut, err := env.StartNode(w.sutHost, fs, "", plan.K)
	if err != nil {
		panic("harness: cannot start SUT: " + err.Error())
	}
	w.sut = sut
	w.dir = sut.TorrentDir("tt")
	if plan.PreSeeded {
		for fi, f := range T.Files {
			if !f.Pad {
				fs.Put(w.dir+"/"+T.FileRel(fi), T.FileData(fi))
			}
		}
	}
	sut.In(func() {
		w.tor, err = sut.Sess.AddTorrent(bytes.NewReader(T.MetaBytes), &torrent.AddTorrentOptions{ID: "tt", Stopped: true})
	})
	if err != nil {
		simrt.Violate("C10", "add.rejected", "valid torrent rejected: %v", err)
		return
	}
	// disk oracles + fault + crash gates
	crashAt := map[int]bool{}
	for _, n := range plan.CrashAtWrite {
		crashAt[n] = true
	}
	fs.OnWrite = func(ev *simfs.WriteEvent) simfs.Fault {
		if ev.Phase == "end" {
			w.mu.Lock()
			w.lastWriteEnd = simrt.Now()
			w.mu.Unlock()
		}
		if ev.Phase == "begin" {
			w.mu.Lock()
			w.writes++
			w.mu.Unlock()
			w.mu.Lock()
			quiet := w.noFaults
			w.mu.Unlock()
			if plan.WriteErrAt > 0 && ev.N == plan.WriteErrAt && !quiet {
				simrt.Count("fault.disk.write_error", 1)
				return simfs.Fault{Err: fmt.Errorf("no space left on device")}
			}
		}
		phase := plan.CrashPhase
		if phase == "" {
			phase = "mid"
		}
		if crashAt[ev.N] && ev.Phase == phase {
			w.crash(fmt.Sprintf("write#%d/%s", ev.N, ev.Phase), plan.CrashDel)
		}
		return simfs.Fault{}
	}
	installDiskOracle(fs, T, w.dir, nil)
	if plan.OpenErrAt > 0 {
		opens := 0
		prevOpen := fs.OnOpen
		fs.OnOpen = func(p string, flag int) error {
			if strings.HasPrefix(p, w.dir+"/") {
				w.mu.Lock()
				opens++
				n, quiet := opens, w.noFaults
				armed := w.armedStart
				w.mu.Unlock()
				if n == plan.OpenErrAt && !quiet && plan.OpenErrAt%2 == 0 {
					simrt.Count("fault.disk.open_error", 1)
					return fmt.Errorf("input/output error")
				}
				if armed && !quiet && plan.OpenErrAt%2 == 1 {
					// aimed: the first existing file that is opened after a missing one was
					// recreated by the same allocation
					_, exists := fs.Get(p)
					w.mu.Lock()
					fire := false
					if !exists {
						w.sawMissing = true
					} else if w.sawMissing {
						fire = true
						w.armedStart, w.sawMissing = false, false
					}
					w.mu.Unlock()
					if fire {
						simrt.Count("fault.disk.open_error_after_recreate", 1)
						return fmt.Errorf("input/output error")
					}
				}
			}
			if prevOpen != nil {
				return prevOpen(p, flag)
			}
			return nil
		}
	}

	// the honest seed
	sutAddr := func() string {
		addr := fmt.Sprintf("%s:%d", w.sutHost.IP, w.tor.Port())
		if env.Net.Listening(addr) {
			return addr
		}
		return ""
	}
	seedHost := env.NewHost("seed", "peer")
	env.Net.SetDNS("seed.example", simnet.DNSEntry{IPs: nil})
	w.seed = &PeerActor{Spec: plan.Seed, Host: seedHost, T: T, Seed: env.R.Uint64(), SutAddr: sutAddr,
		Lim: refbt.Limits{MaxRequestsOut: sut.Cfg.MaxRequestsOut, DefaultRequestsOut: sut.Cfg.DefaultRequestsOut}}
	w.seed.Hooks = refbt.Hooks{OnHave: func(p *refbt.Peer, i int) {
		w.mu.Lock()
		t := w.tainted[i]
		w.mu.Unlock()
		if !t {
			checkClaim(fs, w.dir, T, i, "have/bitfield to "+p.Name)
		}
	}}
	lst := &PeerActor{Spec: PeerSpec{Name: "seedl", B: plan.Seed.B, Mode: "listen"}, Host: env.NewHost("seedl", "peer"), T: T, Seed: env.R.Uint64(), Lim: w.seed.Lim}
	lst.Hooks = w.seed.Hooks
	lst.Listen()
	lst.Start()
	env.Net.SetDNS("seed.example", simnet.DNSEntry{IPs: []simnetIP{parseIP(lst.Host.IP)}, Delay: 20 * time.Millisecond})
	w.seed.Start()
	// more addresses than dial slots: slow honest listeners handed over together with seedl
	for i := 0; i < plan.Extras; i++ {
		b := plan.Seed.B
		b.ServeDelay = [2]time.Duration{100 * time.Millisecond, 2 * time.Second}
		x := &PeerActor{Spec: PeerSpec{Name: fmt.Sprintf("xl%d", i), B: b, Mode: "listen"}, Host: env.NewHost(fmt.Sprintf("xl%d", i), "peer"), T: T, Seed: env.R.Uint64(), Lim: w.seed.Lim}
		x.Hooks = w.seed.Hooks
		x.Listen()
		x.Start()
		w.extras = append(w.extras, x)
	}

	// monitor
	stopMon := make(chan struct{})
	go func() {
		r := env.R.Fork()
		for {
			select {
			case <-stopMon:
				return
			case <-time.After(r.Dur(100*time.Millisecond, 3*time.Second)):
			}
			w.mu.Lock()
			rm := w.removed
			w.mu.Unlock()
			if rm {
				return
			}
			w.truth(w.stats(), "monitor")
		}
	}()

	// the command sequence
	ended := false
	for ci, c := range plan.Cmds {
		if c.Gap > 0 {
			time.Sleep(c.Gap)
		}
		simrt.Logf("cmd %d %s n=%d", ci, c.Kind, c.N)
		env.SigAdd("%s", c.Kind)
		var next time.Duration = time.Hour
		if ci+1 < len(plan.Cmds) {
			next = plan.Cmds[ci+1].Gap
		}
		if w.doCmd(c, next, lst) {
			ended = true
			break
		}
	}
	close(stopMon)
	if !ended && plan.Converge {
		w.converge()
	}
	w.crashWG.Wait()
	env.NonTriv = w.writes > 0 || len(plan.Cmds) > 2
	if len(plan.CrashAtWrite) > 0 {
		env.NonTriv = simrt.Counters()["probe.crash.restart_checked"] > 0
	}
	env.Stats["writes"] = w.writes
	env.Stats["cmds"] = len(plan.Cmds)
	env.Stats["crashes"] = w.crashN
	simrt.FreezeTrace()
	w.seed.Stop()
	lst.Stop()
	if tracker != nil {
		tracker.Stop()
	}
	if !ended {
		w.api("Session.Close", func() { sut.Close() })
		if h := fs.OpenHandles("/"); len(h) > 0 {
			simrt.Violate("C04", "close.open_handles", "files still open after Session.Close: %v", h)
		}
	}
}

// doCmd executes one command; next is the gap until the following command. Returns true if
// the run is over (remove / close).
func (w *lifeWorld) doCmd(c Cmd, next time.Duration, lst *PeerActor) bool {
	T := w.T
	sut := w.sut
	stopTimeout := sut.Cfg.TrackerStopTimeout
	switch c.Kind {
	case "start":
		// A Start() issued while a verification run is in progress is a no-op by design
		// ("a verification request ends with the torrent stopped"): no effect is demanded then.
		pre := w.stats()
		w.mu.Lock()
		// the aimed open error applies to the allocation of the first start after a deletion
		w.armedStart, w.sawMissing = w.openErrArmed && pre.Status == torrent.Stopped, false
		if pre.Status == torrent.Stopped {
			w.openErrArmed = false
		}
		verifying := w.verifyInFlight
		if pre.Status == torrent.Stopped && verifying && simrt.Now()-w.verifyAt > time.Second {
			w.verifyInFlight, verifying = false, false
		}
		w.mu.Unlock()
		if !w.api("Start", func() { w.tor.Start() }) {
			return true
		}
		// effect: the torrent leaves Stopped (or reports an error), if nothing else intervenes
		if next >= stopTimeout+3*time.Second && !verifying {
			time.Sleep(stopTimeout + 2*time.Second)
			st := w.stats()
			if (st.Status == torrent.Stopped || st.Status == torrent.Stopping) && st.Error == nil {
				simrt.Violate("C04", "effect.start_dropped", "Start() returned but %v later the torrent is %s with no error reported", stopTimeout+2*time.Second, st.Status)
			}
		}
	case "stop":
		if !w.api("Stop", func() { w.tor.Stop() }) {
			return true
		}
		// The bound of the property is the tracker stop timeout; a stop also waits for file
		// open calls already in progress, so the simulated disk latency is added as slack.
		slack := time.Duration(len(T.Files))*w.plan.DiskOpenLat + w.plan.DiskReadLat + time.Second
		if next >= stopTimeout+slack+2*time.Second {
			time.Sleep(stopTimeout + slack)
			st := w.stats()
			if st.Status != torrent.Stopped {
				simrt.Violate("C04", "effect.stop_not_stopped", "Stop() returned but %v later (tracker stop timeout %v + disk latency slack) the status is %s", stopTimeout+slack, stopTimeout, st.Status)
			} else {
				w.truth(st, "after stop")
			}
		}
	case "verify":
		w.mu.Lock()
		w.verifyInFlight = true
		w.verifyAt = simrt.Now()
		w.mu.Unlock()
		if !w.api("Verify", func() { w.tor.Verify() }) {
			return true
		}
		if next >= 10*time.Minute {
			// ends Stopped, with the bitfield equal to what is on disk
			deadline := simrt.Now() + 9*time.Minute
			sawWork := false
			for simrt.Now() < deadline {
				st := w.stats()
				if st.Status == torrent.Verifying || st.Status == torrent.Allocating {
					sawWork = true
				}
				if st.Status == torrent.Stopped && (sawWork || simrt.Now() > deadline-8*time.Minute) {
					break
				}
				time.Sleep(50 * time.Millisecond)
			}
			st := w.stats()
			if st.Status != torrent.Stopped {
				simrt.Violate("C04", "effect.verify_not_stopped", "Verify() did not end in Stopped within 9 minutes: status %s", st.Status)
			} else if st.Error == nil {
				ok := DiskState(sut.FS, w.dir, T, false)
				// A piece whose content is all zeros is "correct on disk" as soon as its file
				// exists, also a file the client has just created empty: a verification that
				// found no file to read rightly reports nothing. Such pieces may or may not count.
				good, goodNZ := 0, 0
				for i, b := range ok {
					if b {
						good++
						if !allZero(T.Piece(i)) {
							goodNZ++
						}
					}
				}
				w.mu.Lock()
				lateWrite := w.lastWriteEnd > w.verifyAt
				w.mu.Unlock()
				switch {
				case int(st.Pieces.Have) > good:
					simrt.Violate("C04", "effect.verify_result", "after Verify() the torrent reports %d pieces, only %d are correct on disk", st.Pieces.Have, good)
				case int(st.Pieces.Have) < goodNZ && !lateWrite:
					simrt.Violate("C04", "effect.verify_result", "after Verify() the torrent reports %d pieces, %d are correct on disk", st.Pieces.Have, goodNZ)
				case int(st.Pieces.Have) != good:
					// a piece write that was in flight when the torrent was stopped for the
					// verification landed after its file had been checked: the result describes
					// the disk as it was, and claims less than what is there now
					simrt.Count("probe.life.verify_raced_by_late_write", 1)
				}
				w.mu.Lock()
				w.tainted = map[int]bool{}
				w.mu.Unlock()
			}
		}
	case "announce":
		w.api("Announce", func() { w.tor.Announce() })
	case "addpeer":
		w.api("AddPeer", func() { w.tor.AddPeer(lst.Addr) })
		for _, x := range w.extras {
			w.api("AddPeer", func() { w.tor.AddPeer(x.Addr) })
		}
	case "addpeer_host":
		w.api("AddPeer", func() { w.tor.AddPeer(fmt.Sprintf("seed.example:%d", 6881)) })
	case "addtracker":
		if w.trackerURL != "" {
			w.api("AddTracker", func() { w.tor.AddTracker(w.trackerURL) })
		} else {
			w.api("AddTracker", func() { w.tor.AddTracker("http://10.9.9.9:80/announce") })
		}
	case "stats":
		w.truth(w.stats(), "stats cmd")
	case "peers":
		w.api("Peers", func() { w.tor.Peers() })
	case "trackers":
		w.api("Trackers", func() { w.tor.Trackers() })
	case "webseeds":
		w.api("Webseeds", func() { w.tor.Webseeds() })
	case "corrupt", "truncate", "delete", "delete_all":
		// external mutations happen only while the torrent reports Stopped
		if w.stats().Status != torrent.Stopped {
			simrt.Count("probe.life.mutation_skipped_not_stopped", 1)
			return false
		}
		w.mutate(c)
	case "crash":
		w.crash("cmd", c.Arg)
	case "remove":
		var err error
		w.mu.Lock()
		w.removed = true
		w.mu.Unlock()
		ok := w.api("RemoveTorrent", func() { err = sut.Sess.RemoveTorrent("tt", c.N == 1) })
		_ = err
		if ok {
			if h := sut.FS.OpenHandles(w.dir); len(h) > 0 {
				simrt.Violate("C04", "remove.open_handles", "files still open after RemoveTorrent: %v", h)
			}
			w.api("Session.Close", func() { sut.Close() })
		}
		return true
	case "close":
		w.mu.Lock()
		w.removed = true
		w.mu.Unlock()
		w.api("Session.Close", func() { sut.Close() })
		if h := sut.FS.OpenHandles("/"); len(h) > 0 {
			simrt.Violate("C04", "close.open_handles", "files still open after Session.Close: %v", h)
		}
		return true
	}
	return false
}

func (w *lifeWorld) mutate(c Cmd) {
	T := w.T
	fsys := w.sut.FS
	var real []int
	for fi, f := range T.Files {
		if !f.Pad && f.Length > 0 {
			real = append(real, fi)
		}
	}
	if len(real) == 0 {
		return
	}
	fi := real[c.N%len(real)]
	p := w.dir + "/" + T.FileRel(fi)
	switch c.Kind {
	case "corrupt":
		pi := c.N % T.NumPieces
		if len(T.ZeroRuns) > 0 && c.N%2 == 1 {
			// damage where the content is all zeros
			z := T.ZeroRuns[(c.N/2)%len(T.ZeroRuns)]
			if z[0] >= 0 && z[0] < T.Total {
				pi = int(z[0] / int64(T.PieceLen))
				if z[0]%int64(T.PieceLen) != 0 && pi+1 < T.NumPieces && z[1] > int64(T.PieceLen) {
					pi++ // a piece wholly inside the run
				}
			}
		}
		if T.NonPadBytes(pi) == 0 {
			return
		}
		off := int64(pi) * int64(T.PieceLen)
		n := int64(T.PieceSize(pi))
		done := false
		for fj, f := range T.Files {
			if f.Pad || f.Length == 0 {
				continue
			}
			s, e := T.FileOff[fj], T.FileOff[fj]+f.Length
			lo, hi := max(s, off), min(e, off+n)
			if lo >= hi {
				continue
			}
			if fsys.Mutate(w.dir+"/"+T.FileRel(fj), func(b []byte) []byte {
				if int64(len(b)) > lo-s {
					b[lo-s] ^= 0xff
				}
				return b
			}) {
				done = true
			}
			break
		}
		if done {
			w.mu.Lock()
			w.tainted[pi] = true
			w.mu.Unlock()
			simrt.Count("fault.disk.ext_corrupt", 1)
		}
	case "truncate":
		if fsys.Mutate(p, func(b []byte) []byte { return b[:len(b)/2] }) {
			w.mu.Lock()
			for _, pi := range piecesOfFile(T, fi) {
				w.tainted[pi] = true
			}
			w.mu.Unlock()
			simrt.Count("fault.disk.ext_truncate", 1)
		}
	case "delete":
		fsys.Delete(p)
		simrt.Count("fault.disk.ext_delete", 1)
	case "delete_all":
		for _, f := range fsys.Files(w.dir) {
			fsys.Delete(f)
		}
		simrt.Count("fault.disk.ext_delete_all", 1)
	}
	if c.Kind == "delete" {
		w.mu.Lock()
		w.openErrArmed, w.sawMissing = true, false
		w.mu.Unlock()
	}
	simrt.Logf("mutation %s applied", c.Kind)
}

// converge: finally, with a reachable seed and no more faults, the files become complete and
// correct. Silent content corruption cannot be detected by any client without re-hashing,
// so a verification is requested first when such a mutation happened since the last one.
func (w *lifeWorld) converge() {
	w.mu.Lock()
	needVerify := len(w.tainted) > 0
	w.noFaults = true
	w.mu.Unlock()
	simrt.Logf("converge phase verify=%v", needVerify)
	stopT := w.sut.Cfg.TrackerStopTimeout
	waitStopped := func(max time.Duration) bool {
		dl := simrt.Now() + max
		for simrt.Now() < dl {
			if w.stats().Status == torrent.Stopped {
				return true
			}
			time.Sleep(200 * time.Millisecond)
		}
		return false
	}
	w.api("Stop", func() { w.tor.Stop() })
	if !waitStopped(stopT+5*time.Second+time.Duration(len(w.T.Files))*w.plan.DiskOpenLat+w.plan.DiskReadLat) && w.stats().Status != torrent.Stopped {
		simrt.Violate("C04", "effect.stop_not_stopped", "final Stop(): status %s after the tracker stop timeout", w.stats().Status)
		return
	}
	if needVerify {
		w.api("Verify", func() { w.tor.Verify() })
		time.Sleep(time.Second)
		if !waitStopped(15 * time.Minute) {
			simrt.Violate("C04", "effect.verify_not_stopped", "final Verify() did not end in Stopped: status %s", w.stats().Status)
			return
		}
		w.mu.Lock()
		w.tainted = map[int]bool{}
		w.mu.Unlock()
	}
	w.api("Start", func() { w.tor.Start() })
	dl := simrt.Now() + 2*time.Hour
	for simrt.Now() < dl {
		st := w.stats()
		if st.Status == torrent.Seeding {
			w.truth(st, "converged")
			w.checkFiles()
			return
		}
		if st.Status == torrent.Stopped && st.Error != nil {
			simrt.Violate("C04", "converge.stopped_with_error", "final Start(): torrent stopped with error %v", st.Error)
			return
		}
		time.Sleep(time.Second)
	}
	st := w.stats()
	simrt.Violate("C04", "converge.not_complete", "final Start() with a reachable seed did not converge in 2 h: status=%s have=%d/%d err=%v", st.Status, st.Pieces.Have, st.Pieces.Total, st.Error)
}

func (w *lifeWorld) checkFiles() {
	for i, f := range w.T.Files {
		if f.Pad {
			continue
		}
		p := w.dir + "/" + w.T.FileRel(i)
		got, ok := w.sut.FS.Get(p)
		if !ok || !bytes.Equal(got, w.T.FileData(i)) {
			simrt.Violate("C04", "converge.files_differ", "after convergence %s is missing or differs from the torrent's content", p)
			return
		}
	}
}

// crash: C05. Take the durable image + DB copy now, boot a second session on them, and check
// that it never counts a piece as held unless that piece is complete and correct in the image.
func (w *lifeWorld) crash(at, del string) {
	w.mu.Lock()
	w.crashN++
	n := w.crashN
	w.mu.Unlock()
	if n > 4 {
		return
	}
	env := w.env
	T := w.T
	r := env.R.Fork()
	img := w.sut.FS.CrashImage(fmt.Sprintf("crash%d", n), r, 0.3)
	db := w.sut.CopyDB(fmt.Sprintf("crash%d", n))
	simrt.Count("fault.crash", 1)
	simrt.Logf("crash snapshot %d at %s del=%q", n, at, del)
	env.SigAdd("crash@%s", at)
	// optional: files missing at restart
	var real []string
	for fi, f := range T.Files {
		if !f.Pad {
			real = append(real, w.dir+"/"+T.FileRel(fi))
		}
	}
	var deleted []string
	switch del {
	case "del_all":
		for _, p := range real {
			img.Delete(p)
			deleted = append(deleted, p)
		}
	case "del_some":
		for _, p := range real {
			if r.Bool() {
				img.Delete(p)
				deleted = append(deleted, p)
			}
		}
	}
	// Files were lost: half of the time the restarted session crashes again as soon as it has
	// recreated one of them (a third session then finds the files in place).
	again := len(deleted) > 0 && r.Bool()
	// run the post-crash check on its own goroutine: we are inside a disk write gate here
	w.crashWG.Add(1)
	go func() {
		defer w.crashWG.Done()
		w.postCrash(n, img, db, deleted, again)
	}()
}

func (w *lifeWorld) postCrash(n int, img *simfs.FS, db string, deleted []string, again bool) {
	env := w.env
	T := w.T
	host := env.NewHost(fmt.Sprintf("sut-r%d", n), "sut")
	k := w.plan.K
	if again {
		// a slow disk and frequent resume writes: the second crash can land in a verification
		// during which the periodic writer has run
		k.ResumeWriteInterval = 300 * time.Millisecond
		img.ReadLat = [2]time.Duration{50 * time.Millisecond, 400 * time.Millisecond}
	}
	node, err := env.StartNode(host, img, db, k)
	if err != nil {
		simrt.Violate("C05", "restart.db_open", "session does not start on the post-crash state: %v", err)
		return
	}
	var tor *torrent.Torrent
	node.In(func() { tor = node.Sess.GetTorrent("tt") })
	if tor == nil {
		// The torrent record itself may not have been written yet: that is a completed
		// earlier state ("no torrent"), not a violation.
		simrt.Count("probe.crash.no_torrent_after_restart", 1)
		node.Close()
		return
	}
	dir := node.TorrentDir("tt")
	node.In(func() { tor.Start() })
	if again {
		w.crashWG.Add(1)
		go func() {
			defer w.crashWG.Done()
			r := env.R.Fork()
			// right after the recreation, or a little later (the verification that follows is
			// still running and a periodic resume write may have happened meanwhile)
			delay := r.Dur(0, 20*time.Millisecond)
			if r.Bool() {
				delay = r.Dur(200*time.Millisecond, 4*time.Second)
			}
			for i := 0; i < 20000; i++ {
				back := false
				for _, p := range deleted {
					if _, ok := img.Get(p); ok {
						back = true
					}
				}
				if back {
					break
				}
				time.Sleep(time.Millisecond)
			}
			time.Sleep(delay)
			img2 := img.CrashImage(fmt.Sprintf("crash%d-again", n), r, 0.3)
			db2 := node.CopyDB(fmt.Sprintf("crash%d-again", n))
			simrt.Count("fault.crash_again", 1)
			simrt.Logf("crash snapshot %d: second crash %v after a lost file was recreated", n, delay)
			env.SigAdd("crash-again@%d", n)
			w.postCrash(n+10, img2, db2, nil, false)
		}()
	}
	// an observer peer learns exactly which pieces the restarted session claims
	obs := &PeerActor{Spec: PeerSpec{Name: fmt.Sprintf("obs%d", n), Mode: "dial", Redial: 2 * time.Second,
		B: refbt.Behavior{Fast: true, Ext: true, NeverUnchoke: true, Announce: "auto"}}, Host: env.NewHost(fmt.Sprintf("obs%d", n), "observer"), T: T, Seed: env.R.Uint64()}
	obs.SutAddr = func() string {
		addr := fmt.Sprintf("%s:%d", host.IP, tor.Port())
		if env.Net.Listening(addr) {
			return addr
		}
		return ""
	}
	claimed := 0
	obs.Hooks = refbt.Hooks{OnHave: func(p *refbt.Peer, i int) {
		claimed++
		ok := DiskState(img, dir, T, false)
		if !ok[i] {
			simrt.Violate("C05", "resume.ahead_of_disk", "after a crash the restarted session claims piece %d but its bytes in the surviving files are missing or wrong", i)
		}
	}}
	obs.Start()
	dl := simrt.Now() + 3*time.Minute
	var st torrent.Stats
	for simrt.Now() < dl {
		node.In(func() { st = tor.Stats() })
		if st.Status == torrent.Downloading || st.Status == torrent.Seeding || (st.Status == torrent.Stopped && st.Error != nil) {
			// give the observer time to connect and read the bitfield
			time.Sleep(8 * time.Second)
			break
		}
		time.Sleep(200 * time.Millisecond)
	}
	node.In(func() { st = tor.Stats() })
	ok := DiskState(img, dir, T, false)
	good := 0
	for _, b := range ok {
		if b {
			good++
		}
	}
	if (st.Status == torrent.Downloading || st.Status == torrent.Seeding) && int(st.Pieces.Have) > good {
		simrt.Violate("C05", "resume.ahead_of_disk", "after a crash the restarted session reports %d pieces, only %d are complete and correct in the surviving files", st.Pieces.Have, good)
	}
	if st.Status == torrent.Seeding && good != T.NumPieces {
		simrt.Violate("C05", "resume.seeding_incomplete", "after a crash the restarted session is Seeding with %d of %d pieces correct on disk", good, T.NumPieces)
	}
	simrt.Count("probe.crash.restart_checked", 1)
	if claimed > 0 {
		simrt.Count("probe.crash.restart_claimed_pieces", int64(claimed))
	}
	obs.Stop()
	node.Close()
}

func genLifeBase(r *simrt.Rand, tier string) *LifePlan {
	o := gen.GenOpts{MaxPieces: 10, MaxPieceLen: 64 << 10, AllowPad: true}
	if tier == "thorough" {
		o.MaxPieces = 32
		o.MaxPieceLen = 128 << 10
	}
	l := gen.RandomLayout(r, o)
	np := numPiecesOf(l)
	lp := &LifePlan{Layout: l, Net: netCfg(r), Converge: true}
	k := Knobs{}
	if r.Chance(0.5) {
		k.DisableOutgoingEncryption = true
	}
	k.PeerConnectTimeout = r.Dur(time.Second, 5*time.Second)
	if r.Chance(0.3) {
		k.TrackerStopTimeout = r.Dur(time.Second, 8*time.Second)
	}
	if r.Chance(0.3) {
		k.ResumeWriteInterval = r.Dur(time.Second, 10*time.Second)
	}
	lp.K = k
	lp.DiskWriteLat = simrt.Pick(r, []time.Duration{time.Millisecond, 50 * time.Millisecond, time.Second, 4 * time.Second})
	lp.DiskReadLat = simrt.Pick(r, []time.Duration{time.Millisecond, 20 * time.Millisecond, 300 * time.Millisecond})
	lp.DiskOpenLat = simrt.Pick(r, []time.Duration{time.Millisecond, 100 * time.Millisecond, 2 * time.Second})
	sp := honestPeer(r, l, "seed", np)
	sp.Redial = r.Dur(2*time.Second, 15*time.Second)
	sp.At = 0
	lp.Seed = sp
	if r.Chance(0.5) {
		lp.Tracker = true
		lp.TrackerDelay = simrt.Pick(r, []time.Duration{0, 200 * time.Millisecond, 3 * time.Second, 20 * time.Second})
	}
	lp.PreSeeded = r.Chance(0.25)
	if r.Chance(0.3) {
		lp.Extras = r.Range(1, 4)
		lp.K.MaxPeerDial = r.Range(1, 2)
	}
	return lp
}

func gapOf(r *simrt.Rand) time.Duration {
	switch r.Intn(6) {
	case 0:
		return 0
	case 1:
		return r.Dur(0, 20*time.Millisecond)
	case 2:
		return r.Dur(0, time.Second)
	case 3:
		return r.Dur(time.Second, 10*time.Second)
	case 4:
		return r.Dur(10*time.Second, 60*time.Second)
	}
	return r.Dur(0, 5*time.Second)
}

func init() {
	Register(&Scenario{Name: "lifecycle", Gen: func(r *simrt.Rand, tier string, p *Plan) {
		lp := genLifeBase(r, tier)
		n := r.Range(2, 12)
		if tier == "thorough" {
			n = r.Range(2, 40)
		}
		kinds := []string{"start", "start", "start", "stop", "stop", "stop", "verify", "announce", "addpeer", "addpeer_host", "addtracker", "stats", "peers", "trackers", "webseeds", "corrupt", "truncate", "delete", "delete_all"}
		for i := 0; i < n; i++ {
			c := Cmd{Gap: gapOf(r), Kind: simrt.Pick(r, kinds), N: r.Intn(1000)}
			switch c.Kind {
			case "corrupt", "truncate", "delete", "delete_all":
				// mutations are applied at Stopped points: precede with a stop and a long gap
				lp.Cmds = append(lp.Cmds, Cmd{Gap: gapOf(r), Kind: "stop"})
				c.Gap = r.Dur(25*time.Second, 40*time.Second)
			case "verify":
				if r.Chance(0.5) {
					lp.Cmds = append(lp.Cmds, c)
					c = Cmd{Gap: r.Dur(11*time.Minute, 12*time.Minute), Kind: "stats"}
				}
			case "stop", "start":
				if r.Chance(0.3) { // leave room for the effect check
					lp.Cmds = append(lp.Cmds, c)
					c = Cmd{Gap: r.Dur(30*time.Second, 40*time.Second), Kind: "stats"}
				}
			}
			lp.Cmds = append(lp.Cmds, c)
			if c.Kind == "corrupt" && r.Chance(0.5) {
				// the damage is found by a verification and repaired by a download
				lp.Cmds = append(lp.Cmds, Cmd{Gap: r.Dur(0, 2*time.Second), Kind: "verify"}, Cmd{Gap: r.Dur(11*time.Minute, 12*time.Minute), Kind: "start"}, Cmd{Gap: r.Dur(30*time.Second, 60*time.Second), Kind: "stats"})
			}
		}
		if r.Chance(0.15) {
			lp.Cmds = append(lp.Cmds, Cmd{Gap: gapOf(r), Kind: simrt.Pick(r, []string{"remove", "close"}), N: r.Intn(2)})
		}
		if r.Chance(0.1) {
			lp.WriteErrAt = r.Range(1, 20)
		}
		if r.Chance(0.15) {
			lp.OpenErrAt = r.Range(1, 6*len(lp.Layout.Files))
		}
		for _, c := range lp.Cmds {
			if c.Kind == "delete" && len(lp.Layout.Files) > 1 && r.Chance(0.5) {
				lp.OpenErrAt = 1 // odd: aimed at the allocation after the deletion
			}
		}
		p.Lifecycle = lp
	}, Run: func(env *Env, p *Plan) { RunLifecycle(env, p.Lifecycle) }})

	// C05: downloads with crash snapshots at write gates and at random commands
	Register(&Scenario{Name: "crash", Gen: func(r *simrt.Rand, tier string, p *Plan) {
		lp := genLifeBase(r, tier)
		lp.PreSeeded = false
		lp.K.ResumeWriteInterval = simrt.Pick(r, []time.Duration{time.Second, 3 * time.Second, 30 * time.Second})
		lp.DiskWriteLat = simrt.Pick(r, []time.Duration{10 * time.Millisecond, 300 * time.Millisecond, 2 * time.Second})
		np := numPiecesOf(lp.Layout)
		lp.Cmds = []Cmd{{Kind: "start"}}
		lp.CrashPhase = simrt.Pick(r, []string{"begin", "mid", "mid", "end"})
		lp.CrashDel = simrt.Pick(r, []string{"", "", "", "del_some", "del_all"})
		for i := 0; i < r.Range(1, 3); i++ {
			lp.CrashAtWrite = append(lp.CrashAtWrite, r.Range(1, np+3))
		}
		// a few commands around, then crashes at command points too
		t := []string{"stop", "start", "verify", "crash", "crash", "stats"}
		for i := 0; i < r.Range(1, 6); i++ {
			c := Cmd{Gap: r.Dur(0, 20*time.Second), Kind: simrt.Pick(r, t), Arg: simrt.Pick(r, []string{"", "", "del_some", "del_all"})}
			lp.Cmds = append(lp.Cmds, c)
		}
		lp.Converge = true
		lp.NoTruth = true
		if r.Chance(0.25) { // a transient write error somewhere before the crash
			lp.WriteErrAt = r.Range(1, 2*np+2)
		}
		p.Lifecycle = lp
	}, Run: func(env *Env, p *Plan) { RunLifecycle(env, p.Lifecycle) }})
}

func allZero(b []byte) bool {
	for _, v := range b {
		if v != 0 {
			return false
		}
	}
	return true
}
