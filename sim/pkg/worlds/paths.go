package worlds

import (
	"archive/tar"
	"bytes"
	"fmt"
	"mime/multipart"
	"net/http"
	"strconv"
	"strings"
	"time"

	"github.com/cenkalti/rain/v2/internal/zzsim/gen"
	"github.com/cenkalti/rain/v2/internal/zzsim/simfs"
	"github.com/cenkalti/rain/v2/internal/zzsim/simrt"
	"github.com/cenkalti/rain/v2/torrent"
)

// PathPlan: hostile names and path components in a torrent that a real session adds and starts,
// and hostile entry names in the archive a session receives when a torrent is moved to it; every
// operation the session performs on the simulated disk is audited against the torrent's own
// directory (C07).
type PathPlan struct {
	K      Knobs      `json:"knobs"`
	Single bool       `json:"single"`
	Name   string     `json:"name"`
	Paths  [][]string `json:"paths"` // multi-file: path components per file
	// Tar: entry names of the archive posted to /move-torrent ("" = no move in this run)
	Tar    []string `json:"tar,omitempty"`
	// MoveDupPad > 0: the moved torrent's record claims this resume-data version and its info
	// has two files marked as padding (BEP 47 attr) that share one path. Versions 1 and 2 do not
	// honour the attribute: the two are ordinary files resolving to one path.
	MoveDupPad int `json:"move_dup_pad,omitempty"`
	Magnet bool     `json:"magnet,omitempty"`
}

// The plan keeps hostile strings Go-quoted in ASCII (JSON cannot carry invalid UTF-8 or NUL
// unchanged, and a replay must use the very same bytes).
func uq(s string) string {
	v, err := strconv.Unquote(s)
	if err != nil {
		return s
	}
	return v
}

func RunPaths(env *Env, qplan *PathPlan) {
	plan := &PathPlan{K: qplan.K, Single: qplan.Single, Name: uq(qplan.Name), Magnet: qplan.Magnet}
	for _, p := range qplan.Paths {
		var pc []string
		for _, c := range p {
			pc = append(pc, uq(c))
		}
		plan.Paths = append(plan.Paths, pc)
	}
	for _, t := range qplan.Tar {
		plan.Tar = append(plan.Tar, uq(t))
	}
	host := env.NewHost("sut", "sut")
	fs := simfs.New("sut", env.R.Uint64())
	// something the attacker would like to reach
	fs.Put("/etc/passwd", []byte("root:x:0:0"))
	fs.Put("/data/other/secret.bin", []byte("secret"))
	k := plan.K
	k.RPCEnabled = len(plan.Tar) > 0
	sut, err := env.StartNode(host, fs, "", k)
	if err != nil {
		panic("harness: cannot start SUT: " + err.Error())
	}
	dataDir := sut.Cfg.DataDir
	root := func(id string) string {
		if sut.Cfg.DataDirIncludesTorrentID {
			return dataDir + "/" + id
		}
		return dataDir
	}
	simrt.Count("fault.path.hostile_torrent", 1)
	if len(plan.Tar) > 0 {
		simrt.Count("fault.path.hostile_tar", 1)
	}
	audit0 := fs.AuditLen()
	judge := func(id, what string) {
		rt := root(id)
		for _, op := range fs.AuditFrom(audit0) {
			switch op.Kind {
			case "stat", "walk":
				continue // looking is not touching
			}
			if op.Path == rt || strings.HasPrefix(op.Path, rt+"/") {
				continue
			}
			if op.Path == dataDir || strings.HasPrefix(rt, op.Path+"/") {
				continue // creating the parents of the torrent's directory
			}
			simrt.Violate("C07", "escape."+what, "%s: the session did %q on %s, outside the torrent's own directory %s", what, op.Kind, op.Path, rt)
			return
		}
		audit0 = fs.AuditLen()
	}
	if plan.Name != "" || len(plan.Paths) > 0 {
		// the torrent: small files, hostile names
		l := gen.Layout{Name: plan.Name, PieceLen: 16384, Single: plan.Single, DataSeed: env.R.Uint64()}
		if plan.Single {
			l.Files = []gen.FileSpec{{Path: []string{plan.Name}, Length: 20000}}
		} else {
			for i, p := range plan.Paths {
				l.Files = append(l.Files, gen.FileSpec{Path: p, Length: int64(1000 + 700*i)})
			}
		}
		T := gen.Build(l)
		var tor *torrent.Torrent
		var aerr error
		sut.In(func() {
			tor, aerr = sut.Sess.AddTorrent(bytes.NewReader(T.MetaBytes), &torrent.AddTorrentOptions{ID: "tt", Stopped: true})
		})
		simrt.Logf("paths: name=%q single=%v paths=%q -> err=%v", plan.Name, plan.Single, plan.Paths, aerr)
		env.SigAdd("torrent accepted=%v", aerr == nil)
		if aerr == nil {
			simrt.Count("probe.paths.accepted", 1)
			sut.In(func() { tor.Start() })
			// allocation (and nothing to download from): wait until it settles
			var st torrent.Stats
			for i := 0; i < 200; i++ {
				time.Sleep(100 * time.Millisecond)
				sut.In(func() { st = tor.Stats() })
				if st.Status == torrent.Downloading || st.Status == torrent.Stopped || st.Status == torrent.Seeding {
					break
				}
			}
			judge("tt", "torrent")
			// two different non-padding files never resolve to one path
			if st.Status == torrent.Downloading && st.Error == nil {
				created := map[string]bool{}
				for _, f := range fs.Files(root("tt") + "/") {
					created[f] = true
				}
				if want := len(l.Files); len(created) < want {
					simrt.Violate("C07", "collision", "the torrent has %d files but allocation left %d distinct files on disk: %v", want, len(created), sortedKeys(created))
				}
			}
			sut.In(func() { sut.Sess.RemoveTorrent("tt", false) })
			time.Sleep(2 * time.Second)
			judge("tt", "remove")
			if _, ok := fs.Get("/etc/passwd"); !ok {
				simrt.Violate("C07", "escape.remove", "removing the torrent deleted /etc/passwd")
			}
			if _, ok := fs.Get("/data/other/secret.bin"); !ok {
				simrt.Violate("C07", "escape.remove", "removing the torrent deleted a file of another directory under the data dir")
			}
		} else {
			simrt.Count("probe.paths.rejected", 1)
			judge("tt", "rejected_add")
		}
	}
	if len(plan.Tar) > 0 {
		// a hostile peer session "moves" a torrent to us: id, metadata (a valid resume record),
		// data (tar)
		base := gen.Build(gen.Layout{Name: "moved", PieceLen: 16384, Single: true, Files: []gen.FileSpec{{Path: []string{"moved"}, Length: 5000}}, DataSeed: 5})
		version := 3
		if qplan.MoveDupPad > 0 {
			version = qplan.MoveDupPad
			base = gen.Build(gen.Layout{Name: "moved", PieceLen: 16384, DataSeed: 6, Files: []gen.FileSpec{
				{Path: []string{"f1.bin"}, Length: 20000}, {Path: []string{".pad", "100"}, Length: 100, Pad: true},
				{Path: []string{"f2.bin"}, Length: 5000}, {Path: []string{".pad", "100"}, Length: 100, Pad: true},
				{Path: []string{"f3.bin"}, Length: 3000}}})
		}
		var body bytes.Buffer
		mw := multipart.NewWriter(&body)
		w1, _ := mw.CreateFormField("id")
		w1.Write([]byte("mv"))
		w2, _ := mw.CreateFormField("metadata")
		fmt.Fprintf(w2, `{"InfoHash":%q,"Port":0,"Name":"moved","Trackers":null,"URLList":null,"FixedPeers":null,"Info":%q,"Bitfield":null,"AddedAt":"2020-01-01T00:00:00Z","BytesDownloaded":0,"BytesUploaded":0,"BytesWasted":0,"SeededFor":0,"Started":false,"StopAfterDownload":false,"StopAfterMetadata":false,"CompleteCmdRun":false,"Sequential":false,"Version":%d}`, b64(base.InfoHash[:]), b64(base.InfoBytes), version)
		w3, _ := mw.CreateFormFile("data", "data")
		tw := tar.NewWriter(w3)
		for _, n := range plan.Tar {
			tw.WriteHeader(&tar.Header{Name: n, Mode: 0o600, Size: 4, Typeflag: tar.TypeReg})
			tw.Write([]byte("evil"))
		}
		tw.Close()
		mw.Close()
		var code int
		var herr error
		sut.In(func() {
			c := &http.Client{Timeout: 30 * time.Second}
			resp, err := c.Post("http://127.0.0.1:7246/move-torrent", mw.FormDataContentType(), &body)
			if err != nil {
				herr = err
				return
			}
			code = resp.StatusCode
			resp.Body.Close()
		})
		simrt.Logf("paths: move with tar %q -> http %d err=%v", plan.Tar, code, herr)
		env.SigAdd("move code=%d", code)
		simrt.Count("probe.paths.move_posted", 1)
		time.Sleep(time.Second)
		judge("mv", "tar")
		if qplan.MoveDupPad == 1 || qplan.MoveDupPad == 2 {
			var mv *torrent.Torrent
			sut.In(func() { mv = sut.Sess.GetTorrent("mv") })
			if mv != nil {
				simrt.Violate("C07", "collision.moved", "a moved torrent whose record (version %d) has two non-padding files at the path .pad/100 was accepted", qplan.MoveDupPad)
			}
			simrt.Count("probe.paths.move_dup_pad", 1)
		}
	}
	env.NonTriv = true
	simrt.FreezeTrace()
	sut.Close()
}

func b64(b []byte) string {
	const tbl = "ABCDEFGHIJKLMNOPQRSTUVWXYZabcdefghijklmnopqrstuvwxyz0123456789+/"
	var out []byte
	for i := 0; i < len(b); i += 3 {
		var v uint32
		n := min(3, len(b)-i)
		for j := 0; j < 3; j++ {
			v <<= 8
			if j < n {
				v |= uint32(b[i+j])
			}
		}
		out = append(out, tbl[v>>18&63], tbl[v>>12&63])
		if n > 1 {
			out = append(out, tbl[v>>6&63])
		} else {
			out = append(out, '=')
		}
		if n > 2 {
			out = append(out, tbl[v&63])
		} else {
			out = append(out, '=')
		}
	}
	return string(out)
}

func init() {
	comps := []string{"..", ".", "", "a", "b", "a/b", "/abs", "../x", "..\\x", "x\x00y", strings.Repeat("L", 300), "\xff\xfe", " ", "...", "a/../../../etc/passwd", "../other/secret.bin", "..a", "a..", "~", "-rf", "con", "a\\..\\b"}
	Register(&Scenario{Name: "paths", Gen: func(r *simrt.Rand, tier string, p *Plan) {
		q := strconv.QuoteToASCII
		pp := &PathPlan{Single: r.Chance(0.3), Name: q(simrt.Pick(r, append([]string{"ok", "ok", "dir"}, comps...)))}
		pp.K.DataDirNoID = r.Chance(0.4)
		pp.K.TrackerStopTimeout = time.Second
		if !pp.Single {
			for i := 0; i < r.Range(1, 4); i++ {
				var pc []string
				for j := 0; j < r.Range(1, 3); j++ {
					pc = append(pc, q(simrt.Pick(r, append([]string{"f", "g", "sub"}, comps...))))
				}
				pp.Paths = append(pp.Paths, pc)
			}
		}
		if !pp.Single && r.Chance(0.25) {
			// two different files whose cleaned paths are the same
			dir := simrt.Pick(r, []string{"cdir", "sub", "x"})
			long := strings.Repeat("y", 300)
			pair := simrt.Pick(r, [][2]string{{"a/b", "a_b"}, {"\xff.txt", "\xfe.txt"}, {long + "1.bin", long + "2.bin"}, {"k\xc3", "k\xe2\x82"}})
			pp.Paths = append(pp.Paths, []string{q(dir), q(pair[0])}, []string{q(dir), q(pair[1])})
		}
		if r.Chance(0.4) {
			for i := 0; i < r.Range(1, 3); i++ {
				pp.Tar = append(pp.Tar, q(simrt.Pick(r, []string{"moved", "../escape", "/abs/escape", "a/../../escape2", "..", "./ok", "sub/ok", "../mv2/x", "..\\w", "a/./b", "../../etc/passwd", strings.Repeat("d/", 40) + "deep"})))
			}
		}
		if len(pp.Tar) > 0 && r.Chance(0.3) {
			pp.MoveDupPad = r.Range(1, 3)
			pp.Tar = []string{q("f1.bin")}
		}
		p.Paths = pp
	}, Run: func(env *Env, p *Plan) { RunPaths(env, p.Paths) }})
}
