package worlds

import (
	"bytes"
	"fmt"
	"io"
	"net"
	"time"

	"github.com/cenkalti/rain/v2/internal/mse"
	"github.com/cenkalti/rain/v2/internal/zzsim/simnet"
	"github.com/cenkalti/rain/v2/internal/zzsim/simrt"
)

// MSEPlan: both ends of rain's message stream encryption over a simulated TCP connection that
// fragments, delays and short-reads: offered / selected ciphers, a wrong key, initial payload
// sizes, then full-duplex data in random chunkings (C12). The four pads are drawn by rain from
// crypto/rand, which the simulation seeds per run.
type MSEPlan struct {
	Net      simnet.Config `json:"net"`
	Provide  uint32        `json:"provide"` // 1 plaintext, 2 RC4, 3 both
	Select   string        `json:"select"`  // rc4first | plainfirst | onlyrc4 | onlyplain | none
	WrongKey bool          `json:"wrong_key"`
	Payload  int           `json:"payload"` // initial payload length 0..65535
	Chunks   []int         `json:"chunks"`  // sizes of the writes after the handshake (each side)
	ReadMax  int           `json:"read_max"`
}

func RunMSE(env *Env, plan *MSEPlan) {
	env.Net.Cfg = plan.Net
	r := env.R.Fork()
	ha, hb := env.NewHost("ma", "peer"), env.NewHost("mb", "peer")
	sKey := r.Bytes(20)
	payload := r.Bytes(plan.Payload)
	sel := func(provided mse.CryptoMethod) mse.CryptoMethod {
		has := func(m mse.CryptoMethod) bool { return provided&m != 0 }
		switch plan.Select {
		case "rc4first":
			if has(mse.RC4) {
				return mse.RC4
			}
			if has(mse.PlainText) {
				return mse.PlainText
			}
		case "plainfirst":
			if has(mse.PlainText) {
				return mse.PlainText
			}
			if has(mse.RC4) {
				return mse.RC4
			}
		case "onlyrc4":
			if has(mse.RC4) {
				return mse.RC4
			}
		case "onlyplain":
			if has(mse.PlainText) {
				return mse.PlainText
			}
		}
		return 0
	}
	want := sel(mse.CryptoMethod(plan.Provide))
	type result struct {
		err      error
		selected mse.CryptoMethod
		got      []byte // everything read after the handshake
		rerr     error
	}
	// data each side sends after the handshake
	mk := func() [][]byte {
		var out [][]byte
		for _, n := range plan.Chunks {
			out = append(out, r.Bytes(n))
		}
		return out
	}
	dataA, dataB := mk(), mk()
	total := func(d [][]byte) int {
		n := 0
		for _, c := range d {
			n += len(c)
		}
		return n
	}
	resA, resB := make(chan result, 1), make(chan result, 1)
	var ln *simnet.TCPListener
	simrt.Enter(hb)
	ln, err := simnet.ListenTCP("tcp4", &net.TCPAddr{Port: 7000})
	simrt.Enter(nil)
	if err != nil {
		panic("harness: " + err.Error())
	}
	exchange := func(s *mse.Stream, c net.Conn, send [][]byte, expect int, rr *simrt.Rand) ([]byte, error) {
		done := make(chan struct{})
		go func() {
			defer close(done)
			for _, ch := range send {
				if _, err := s.Write(ch); err != nil {
					return
				}
				if rr.Chance(0.3) {
					time.Sleep(rr.Dur(0, 50*time.Millisecond))
				}
			}
		}()
		var got []byte
		buf := make([]byte, max(1, plan.ReadMax))
		var rerr error
		for len(got) < expect {
			n, err := s.Read(buf[:1+rr.Intn(len(buf))])
			got = append(got, buf[:n]...)
			if err != nil {
				rerr = err
				break
			}
		}
		<-done
		return got, rerr
	}
	// acceptor
	simrt.Go(hb, func() {
		c, err := ln.Accept()
		if err != nil {
			resB <- result{err: err}
			return
		}
		c.SetDeadline(time.Now().Add(60 * time.Second))
		s := mse.NewStream(c)
		herr := s.HandshakeIncoming(func(h [20]byte) []byte {
			if plan.WrongKey {
				return nil // this endpoint does not know the stream key the initiator uses
			}
			if h == mse.HashSKey(sKey) {
				return sKey
			}
			return nil
		}, sel)
		if herr != nil {
			c.Close()
			resB <- result{err: herr}
			return
		}
		got, rerr := exchange(s, c, dataB, len(payload)+total(dataA), r.Fork())
		c.Close()
		resB <- result{got: got, rerr: rerr}
	})
	// initiator
	simrt.Go(ha, func() {
		c, err := simnet.DialTimeout("tcp", ln.Addr().String(), 10*time.Second)
		if err != nil {
			resA <- result{err: err}
			return
		}
		c.SetDeadline(time.Now().Add(60 * time.Second))
		s := mse.NewStream(c)
		selected, herr := s.HandshakeOutgoing(sKey, mse.CryptoMethod(plan.Provide), payload)
		if herr != nil {
			c.Close()
			resA <- result{err: herr}
			return
		}
		got, rerr := exchange(s, c, dataA, total(dataB), r.Fork())
		c.Close()
		resA <- result{selected: selected, got: got, rerr: rerr}
	})
	a, b := <-resA, <-resB
	ln.Close()
	simrt.Logf("mse: provide=%d select=%s wrongkey=%v payload=%d -> A err=%v selected=%v, B err=%v", plan.Provide, plan.Select, plan.WrongKey, plan.Payload, a.err, a.selected, b.err)
	shouldWork := !plan.WrongKey && want != 0
	switch {
	case (a.err == nil) != (b.err == nil):
		simrt.Violate("C12", "mse.one_sided", "handshake completed on one side only: initiator err=%v, acceptor err=%v", a.err, b.err)
	case !shouldWork && a.err == nil:
		simrt.Violate("C12", "mse.completed_wrongly", "handshake completed although it had to fail (wrong key=%v, offered %d, acceptor policy %s)", plan.WrongKey, plan.Provide, plan.Select)
	case shouldWork && a.err != nil:
		simrt.Violate("C12", "mse.failed", "handshake failed between two correct endpoints (offered %d, acceptor policy %s, payload %d): initiator %v, acceptor %v", plan.Provide, plan.Select, plan.Payload, a.err, b.err)
	case shouldWork:
		if a.selected != want {
			simrt.Violate("C12", "mse.cipher", "initiator ended with cipher %v, the acceptor selected %v of offered %d", a.selected, want, plan.Provide)
		}
		expB := append(append([]byte(nil), payload...), bytes.Join(dataA, nil)...)
		if !bytes.Equal(b.got, expB) {
			simrt.Violate("C12", "mse.stream", "acceptor read %d bytes (err %v), expected the %d-byte initial payload followed by %d bytes; first difference at %d", len(b.got), b.rerr, len(payload), total(dataA), firstDiff(b.got, expB))
		}
		if expA := bytes.Join(dataB, nil); !bytes.Equal(a.got, expA) {
			simrt.Violate("C12", "mse.stream", "initiator read %d bytes (err %v), expected %d; first difference at %d", len(a.got), a.rerr, len(expA), firstDiff(a.got, expA))
		}
	}
	env.NonTriv = true
	env.SigAdd("provide=%d select=%s wrong=%v ok=%v", plan.Provide, plan.Select, plan.WrongKey, a.err == nil)
	_ = io.EOF
	_ = fmt.Sprint
}

func firstDiff(a, b []byte) int {
	n := min(len(a), len(b))
	for i := 0; i < n; i++ {
		if a[i] != b[i] {
			return i
		}
	}
	return n
}

func init() {
	Register(&Scenario{Name: "mse", Gen: func(r *simrt.Rand, tier string, p *Plan) {
		mp := &MSEPlan{Net: netCfg(r), Provide: uint32(simrt.Pick(r, []int{1, 2, 3, 3})), Select: simrt.Pick(r, []string{"rc4first", "plainfirst", "onlyrc4", "onlyplain", "none"}), WrongKey: r.Chance(0.15)}
		mp.Net.FragMode = simrt.Pick(r, []int{0, 1, 1, 2, 3})
		mp.Net.ShortReadP = r.Float()
		mp.Payload = simrt.Pick(r, []int{0, 0, 1, 68, 1000, 16384, 65535, r.Range(0, 65535)})
		for i := 0; i < r.Range(0, 8); i++ {
			mp.Chunks = append(mp.Chunks, simrt.Pick(r, []int{1, 2, 13, 100, 4096, 16397, r.Range(1, 40000)}))
		}
		mp.ReadMax = simrt.Pick(r, []int{1, 7, 100, 4096, 70000})
		p.MSE = mp
	}, Run: func(env *Env, p *Plan) { RunMSE(env, p.MSE) }})
}
