package worlds

import (
	"bytes"
	"encoding/binary"
	"fmt"
	"sync"
	"time"

	"github.com/cenkalti/rain/v2/internal/zzsim/gen"
	"github.com/cenkalti/rain/v2/internal/zzsim/refbt"
	"github.com/cenkalti/rain/v2/internal/zzsim/simfs"
	"github.com/cenkalti/rain/v2/internal/zzsim/simnet"
	"github.com/cenkalti/rain/v2/internal/zzsim/simrt"
	"github.com/cenkalti/rain/v2/torrent"
)

// SeedPlan: the SUT holds (part of) the data and scripted leechers request from it.
type SeedPlan struct {
	Layout   gen.Layout    `json:"layout"`
	K        Knobs         `json:"knobs"`
	Net      simnet.Config `json:"net"`
	Leechers []PeerSpec    `json:"leechers"`
	// Missing: pieces whose bytes on the SUT's disk are wrong (so it does not have them).
	Missing []int         `json:"missing,omitempty"`
	Dur     time.Duration `json:"dur"`
	// ReadErrP: probability that a disk read fails (injected EIO).
	ReadErrP    float64       `json:"read_err_p,omitempty"`
	ReadLatMax  time.Duration `json:"read_lat_max,omitempty"`
	ReadErrFrom time.Duration `json:"read_err_from,omitempty"`
}

// payloadTap parses the SUT->peer byte stream of a plaintext connection and counts the
// piece payload bytes that were actually written to the socket.
type payloadTap struct {
	mu      sync.Mutex
	buf     []byte
	hs      bool
	opaque  bool  // not a plaintext BitTorrent stream (MSE)
	payload int64 // piece payload bytes seen
	inPiece int64 // remaining payload bytes of the piece message being streamed
	skip    int64 // remaining bytes of a non-piece frame
	needHdr int   // bytes of piece header still to skip
}

func (t *payloadTap) feed(b []byte) {
	t.mu.Lock()
	defer t.mu.Unlock()
	if t.opaque {
		return
	}
	t.buf = append(t.buf, b...)
	for {
		if !t.hs {
			if len(t.buf) < 20 {
				return
			}
			if string(t.buf[:20]) != string(refbt.Pstr) {
				t.opaque = true
				t.buf = nil
				return
			}
			if len(t.buf) < 68 {
				return
			}
			t.buf = t.buf[68:]
			t.hs = true
		}
		if t.inPiece > 0 {
			n := int64(len(t.buf))
			if n == 0 {
				return
			}
			if n > t.inPiece {
				n = t.inPiece
			}
			t.payload += n
			t.inPiece -= n
			t.buf = t.buf[n:]
			continue
		}
		if t.skip > 0 {
			n := int64(len(t.buf))
			if n == 0 {
				return
			}
			if n > t.skip {
				n = t.skip
			}
			t.skip -= n
			t.buf = t.buf[n:]
			continue
		}
		if len(t.buf) < 4 {
			return
		}
		l := int64(binary.BigEndian.Uint32(t.buf))
		if l == 0 {
			t.buf = t.buf[4:]
			continue
		}
		if len(t.buf) < 5 {
			return
		}
		id := t.buf[4]
		if id == refbt.MsgPiece {
			if len(t.buf) < 13 {
				if int64(len(t.buf)) >= 4+l { // malformed short piece frame
					t.buf = t.buf[4+l:]
					continue
				}
				return
			}
			t.buf = t.buf[13:]
			t.inPiece = l - 9
			if t.inPiece < 0 {
				t.inPiece = 0
			}
			continue
		}
		t.buf = t.buf[5:]
		t.skip = l - 1
	}
}

func RunSeeding(env *Env, plan *SeedPlan) {
	env.Net.Cfg = plan.Net
	T := gen.Build(plan.Layout)
	sutHost := env.NewHost("sut", "sut")
	fs := simfs.New("sut", env.R.Uint64())
	if plan.ReadLatMax > 0 {
		fs.ReadLat[1] = plan.ReadLatMax
	}
	sut, err := env.StartNode(sutHost, fs, "", plan.K)
	if err != nil {
		panic("harness: cannot start SUT: " + err.Error())
	}
	dir := sut.TorrentDir("tt")
	// place the data: all files, with the bytes of "missing" pieces zeroed/garbled
	missing := map[int]bool{}
	for _, i := range plan.Missing {
		if i >= 0 && i < T.NumPieces && T.NonPadBytes(i) > 0 {
			missing[i] = true
		}
	}
	data := append([]byte(nil), T.Data...)
	for i := range missing {
		pc := data[int64(i)*int64(T.PieceLen) : int64(i)*int64(T.PieceLen)+int64(T.PieceSize(i))]
		mask := T.PadMask(i)
		for j := range pc {
			if !mask[j] {
				pc[j] ^= 0xa5
			}
		}
	}
	for fi, f := range T.Files {
		if f.Pad {
			continue
		}
		fs.Put(dir+"/"+T.FileRel(fi), data[T.FileOff[fi]:T.FileOff[fi]+f.Length])
	}
	rerr := env.R.Fork()
	fs.OnRead = func(p string, off int64, n int) error {
		if plan.ReadErrP > 0 && simrt.Now() >= plan.ReadErrFrom && rerr.Chance(plan.ReadErrP) {
			return fmt.Errorf("input/output error")
		}
		return nil
	}
	installDiskOracle(fs, T, dir, nil)

	// upload counter tap
	var tapMu sync.Mutex
	taps := []*payloadTap{}
	env.Net.OnConnect = func(p *simnet.Pair) {
		side := -1
		if p.HostA == sutHost {
			side = 0
		} else if p.HostB == sutHost {
			side = 1
		}
		if side < 0 {
			return
		}
		t := &payloadTap{}
		tapMu.Lock()
		taps = append(taps, t)
		tapMu.Unlock()
		p.Tap = func(dir int, b []byte) {
			if dir == side {
				t.feed(b)
			}
		}
	}

	var tor *torrent.Torrent
	sut.In(func() {
		tor, err = sut.Sess.AddTorrent(bytes.NewReader(T.MetaBytes), &torrent.AddTorrentOptions{ID: "tt", Stopped: true})
	})
	if err != nil {
		simrt.Violate("C10", "add.rejected", "valid torrent rejected: %v", err)
		return
	}
	sut.In(func() { tor.Start() })

	sutAddr := func() string {
		addr := fmt.Sprintf("%s:%d", sutHost.IP, tor.Port())
		if env.Net.Listening(addr) {
			return addr
		}
		return ""
	}
	var actors []*PeerActor
	for _, ps := range plan.Leechers {
		a := &PeerActor{Spec: ps, Host: env.NewHost(ps.Name, "leecher"), T: T, Seed: env.R.Uint64(), SutAddr: sutAddr}
		a.Hooks = refbt.Hooks{
			OnHave: func(p *refbt.Peer, i int) { checkClaim(fs, dir, T, i, "have/bitfield to "+p.Name) },
		}
		a.Start()
		actors = append(actors, a)
	}
	// monitor: status/claims
	stop := make(chan struct{})
	go func() {
		r := env.R.Fork()
		for {
			select {
			case <-stop:
				return
			case <-time.After(r.Dur(100*time.Millisecond, 3*time.Second)):
			}
			var st torrent.Stats
			sut.In(func() { st = tor.Stats() })
			if st.Status == torrent.Seeding && len(missing) > 0 {
				simrt.Violate("C04", "status.seeding_with_missing", "status Seeding although %d pieces on disk are wrong", len(missing))
			}
			want := T.NumPieces - len(missing)
			if st.Status == torrent.Seeding || st.Status == torrent.Downloading {
				if int(st.Pieces.Have) != want {
					simrt.Violate("C01", "stats.have_after_verify", "Stats reports %d pieces after verification, %d are correct on disk", st.Pieces.Have, want)
				}
			}
		}
	}()

	time.Sleep(plan.Dur)
	close(stop)
	// quiesce: leechers stop, in-flight bytes drain, then compare the upload counter
	var rx int64
	served := 0
	for _, a := range actors {
		a.Stop()
	}
	time.Sleep(10 * time.Second)
	for _, a := range actors {
		for _, p := range a.Conns {
			rx += p.BytesPayloadRx
			served += len(p.Received)
		}
	}
	var st torrent.Stats
	sut.In(func() { st = tor.Stats() })
	var sent int64
	opaque := false
	tapMu.Lock()
	for _, t := range taps {
		t.mu.Lock()
		sent += t.payload
		opaque = opaque || t.opaque
		t.mu.Unlock()
	}
	tapMu.Unlock()
	env.Stats["payload_rx"] = rx
	env.Stats["payload_sent"] = sent
	env.Stats["uploaded"] = st.Bytes.Uploaded
	env.Stats["blocks_received"] = served
	env.Stats["status"] = st.Status.String()
	env.NonTriv = served > 0
	env.SigAdd("np=%d pl=%d leechers=%d missing=%d", T.NumPieces, T.PieceLen, len(plan.Leechers), len(missing))
	if !opaque && st.Bytes.Uploaded != sent {
		o := "upload_counter.over"
		if st.Bytes.Uploaded < sent {
			o = "upload_counter.under"
		}
		simrt.Violate("C11", o, "Stats.Bytes.Uploaded=%d but %d piece payload bytes were written to peer sockets (%d received by peers)", st.Bytes.Uploaded, sent, rx)
	}
	simrt.FreezeTrace()
	sut.Close()
	if h := fs.OpenHandles("/"); len(h) > 0 {
		simrt.Violate("C04", "close.open_handles", "files still open after Session.Close: %v", h)
	}
}

func init() {
	Register(&Scenario{Name: "seeding", Gen: func(r *simrt.Rand, tier string, p *Plan) {
		o := gen.GenOpts{MaxPieces: 12, MaxPieceLen: 96 << 10, AllowPad: true}
		if tier == "thorough" {
			o.MaxPieces = 40
			o.MaxPieceLen = 256 << 10
		}
		l := gen.RandomLayout(r, o)
		if r.Chance(0.15) {
			l = manyFilesLayout(r) // info dictionary larger than one 16 KiB metadata piece
		}
		np := numPiecesOf(l)
		sp := &SeedPlan{Layout: l, Net: netCfg(r), Dur: r.Dur(20*time.Second, 120*time.Second)}
		k := Knobs{}
		k.ReadCacheBlockSize = simrt.Pick(r, []int64{0, 16 << 10, 10000, 4096, 1 << 20, 128 << 10, 20000, 1})
		if k.ReadCacheBlockSize == 1 {
			k.ReadCacheBlockSize = int64(r.Range(1000, 70000))
		}
		k.ReadCacheSize = simrt.Pick(r, []int64{0, 1, 8 << 10, 64 << 10, 1 << 20})
		k.ReadCacheTTL = simrt.Pick(r, []time.Duration{0, time.Second, 5 * time.Second, time.Minute})
		k.ParallelReads = uint(r.Range(0, 3))
		k.MaxRequestsIn = simrt.Pick(r, []int{0, 1, 4, 50})
		k.UnchokedPeers = simrt.Pick(r, []int{0, 1, 3})
		k.AllowedFastSet = simrt.Pick(r, []int{0, -1, 3, 10})
		sp.K = k
		if r.Chance(0.4) {
			for i := 0; i < r.Range(1, max(1, np/3)); i++ {
				sp.Missing = append(sp.Missing, r.Intn(np))
			}
		}
		if r.Chance(0.25) {
			sp.ReadErrP = simrt.Pick(r, []float64{0.01, 0.1, 0.5})
			sp.ReadErrFrom = r.Dur(time.Second, sp.Dur)
		}
		sp.ReadLatMax = simrt.Pick(r, []time.Duration{time.Millisecond, 30 * time.Millisecond, 500 * time.Millisecond})
		cross := k.ReadCacheBlockSize
		if cross == 0 {
			cross = 128 << 10
		}
		nl := r.Range(1, 5)
		for i := 0; i < nl; i++ {
			b := refbt.Behavior{Fast: r.Chance(0.6), Ext: r.Chance(0.8), Leech: true, LeechMode: simrt.Pick(r, []string{"fuzz", "fuzz", "fuzz", "honest"}),
				LeechCross: cross, LeechInvalidP: simrt.Pick(r, []float64{0, 0.02, 0.1}), LeechChokedP: simrt.Pick(r, []float64{0, 0.1, 0.5}),
				LeechPipeline: simrt.Pick(r, []int{1, 4, 16, 300}), NeverUnchoke: true}
			if b.LeechMode == "honest" {
				b.LeechMode = ""
			}
			b.FetchMeta = b.Ext && r.Chance(0.5)
			ps := PeerSpec{Name: fmt.Sprintf("l%d", i), B: b, Mode: "dial", At: r.Dur(0, 5*time.Second), Redial: r.Dur(time.Second, 10*time.Second)}
			if r.Chance(0.15) {
				ps.ResetAfterBytes = int64(r.Range(100, 300000))
			}
			sp.Leechers = append(sp.Leechers, ps)
		}
		p.Seeding = sp
	}, Run: func(env *Env, p *Plan) { RunSeeding(env, p.Seeding) }})
}
