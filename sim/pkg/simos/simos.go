// Package simos replaces package os inside the rain source files that touch torrent data
// (simgen rewrites `import "os"` to this package in those files only). File operations go to
// the simulated disk of the calling goroutine's host; everything else is re-exported.
package simos

import (
	"io/fs"
	"os"

	"github.com/cenkalti/rain/v2/internal/zzsim/simfs"
)

type (
	File     = simfs.File
	FileInfo = fs.FileInfo
	FileMode = fs.FileMode
)

const (
	O_RDONLY = os.O_RDONLY
	O_WRONLY = os.O_WRONLY
	O_RDWR   = os.O_RDWR
	O_APPEND = os.O_APPEND
	O_CREATE = os.O_CREATE
	O_EXCL   = os.O_EXCL
	O_SYNC   = os.O_SYNC
	O_TRUNC  = os.O_TRUNC

	ModeDir  = fs.ModeDir
	ModePerm = fs.ModePerm

	PathSeparator = os.PathSeparator
)

var (
	ErrNotExist = os.ErrNotExist
	ErrExist    = os.ErrExist
	IsNotExist  = os.IsNotExist
	IsExist     = os.IsExist
	ExpandEnv   = os.ExpandEnv
	Environ     = os.Environ
	Getenv      = os.Getenv
	CreateTemp  = os.CreateTemp
	Exit        = os.Exit
	Stderr      = os.Stderr
	Stdout      = os.Stdout
)

func MkdirAll(p string, perm fs.FileMode) error { return simfs.Cur().MkdirAll(p, perm) }
func RemoveAll(p string) error                  { return simfs.Cur().RemoveAll(p) }
func Remove(p string) error                     { return simfs.Cur().Remove(p) }
func Stat(p string) (fs.FileInfo, error)        { return simfs.Cur().Stat(p) }
func Lstat(p string) (fs.FileInfo, error)       { return simfs.Cur().Stat(p) }
func OpenFile(name string, flag int, perm fs.FileMode) (*File, error) {
	return simfs.Cur().OpenFile(name, flag, perm)
}
func Open(name string) (*File, error) { return simfs.Cur().OpenFile(name, os.O_RDONLY, 0) }
func Create(name string) (*File, error) {
	return simfs.Cur().OpenFile(name, os.O_RDWR|os.O_CREATE|os.O_TRUNC, 0o666)
}
