// Package dht is a recording stub of github.com/nictuku/dht with the API surface rain uses.
// It is substituted at build time (go.mod replace in the simulation build only). It performs
// no network I/O: it records every call so that the simulation can check which info-hashes
// were announced / queried and which nodes were added, and lets the harness inject results.
package dht

import "sync"

type InfoHash string

type Config struct {
	Address          string
	Port             int
	DHTRouters       string
	SaveRoutingTable bool
	NumTargetPeers   int
}

func NewConfig() *Config { return &Config{} }

// Call is one recorded API call.
type Call struct {
	Op       string // "PeersRequestPort", "AddNode", "RemoveInfoHash", "Start", "Stop"
	InfoHash string
	Port     int
	Announce bool
	Addr     string
}

type DHT struct {
	PeersRequestResults chan map[InfoHash][]string
	cfg                 Config
	mu                  sync.Mutex
	calls               []Call
}

var (
	regMu sync.Mutex
	nodes []*DHT
	// OnCall, when set by the harness, observes every call synchronously.
	OnCall func(d *DHT, c Call)
)

// Nodes returns all stub nodes created so far (harness use).
func Nodes() []*DHT {
	regMu.Lock()
	defer regMu.Unlock()
	return append([]*DHT(nil), nodes...)
}

func New(cfg *Config) (*DHT, error) {
	d := &DHT{PeersRequestResults: make(chan map[InfoHash][]string, 16), cfg: *cfg}
	regMu.Lock()
	nodes = append(nodes, d)
	regMu.Unlock()
	return d, nil
}

func (d *DHT) record(c Call) {
	d.mu.Lock()
	d.calls = append(d.calls, c)
	d.mu.Unlock()
	if OnCall != nil {
		OnCall(d, c)
	}
}

// Calls returns a copy of the recorded calls (harness use).
func (d *DHT) Calls() []Call {
	d.mu.Lock()
	defer d.mu.Unlock()
	return append([]Call(nil), d.calls...)
}

// Config returns the configuration the node was created with (harness use).
func (d *DHT) Config() Config { return d.cfg }

func (d *DHT) Start() error { d.record(Call{Op: "Start"}); return nil }
func (d *DHT) Stop()        { d.record(Call{Op: "Stop"}) }
func (d *DHT) Port() int    { return d.cfg.Port }

func (d *DHT) AddNode(addr string) { d.record(Call{Op: "AddNode", Addr: addr}) }

func (d *DHT) RemoveInfoHash(ih string) { d.record(Call{Op: "RemoveInfoHash", InfoHash: ih}) }

func (d *DHT) PeersRequest(ih string, announce bool) {
	d.record(Call{Op: "PeersRequestPort", InfoHash: ih, Announce: announce})
}

func (d *DHT) PeersRequestPort(ih string, announce bool, port int) {
	d.record(Call{Op: "PeersRequestPort", InfoHash: ih, Announce: announce, Port: port})
}

// Inject delivers a result map as the real node would (harness use). Non-blocking.
func (d *DHT) Inject(res map[InfoHash][]string) bool {
	select {
	case d.PeersRequestResults <- res:
		return true
	default:
		return false
	}
}
