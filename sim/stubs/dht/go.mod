module github.com/nictuku/dht

go 1.13
