package metrics

import (
	"math"
	"sync/atomic"
)

// GaugeFloat64s hold a float64 value that can be set arbitrarily.
type GaugeFloat64 interface {
	Snapshot() GaugeFloat64
	Update(float64)
	Value() float64
}

// GetOrRegisterGaugeFloat64 returns an existing GaugeFloat64 or constructs and registers a
// new StandardGaugeFloat64.
func GetOrRegisterGaugeFloat64(name string, r Registry) GaugeFloat64 {
	if nil == r {
		r = DefaultRegistry
	}
	return r.GetOrRegister(name, NewGaugeFloat64()).(GaugeFloat64)
}

// NewGaugeFloat64 constructs a new StandardGaugeFloat64.
func NewGaugeFloat64() GaugeFloat64 {
	if UseNilMetrics {
		return NilGaugeFloat64{}
	}
	return &StandardGaugeFloat64{
		value: 0.0,
	}
}

// NewRegisteredGaugeFloat64 constructs and registers a new StandardGaugeFloat64.
func NewRegisteredGaugeFloat64(name string, r Registry) GaugeFloat64 {
	c := NewGaugeFloat64()
	if nil == r {
		r = DefaultRegistry
	}
	r.Register(name, c)
	return c
}

// NewFunctionalGauge constructs a new FunctionalGauge.
func NewFunctionalGaugeFloat64(f func() float64) GaugeFloat64 {
	if UseNilMetrics {
		return NilGaugeFloat64{}
	}
	return &FunctionalGaugeFloat64{value: f}
}

// NewRegisteredFunctionalGauge constructs and registers a new StandardGauge.
func NewRegisteredFunctionalGaugeFloat64(name string, r Registry, f func() float64) GaugeFloat64 {
	c := NewFunctionalGaugeFloat64(f)
	if nil == r {
		r = DefaultRegistry
	}
	r.Register(name, c)
	return c
}

// GaugeFloat64Snapshot is a read-only copy of another GaugeFloat64.
type GaugeFloat64Snapshot float64

// Snapshot returns the snapshot.
func (g GaugeFloat64Snapshot) Snapshot() GaugeFloat64 { return g }

// Update panics.
func (GaugeFloat64Snapshot) Update(float64) {
	panic("Update called on a GaugeFloat64Snapshot")
}

// Value returns the value at the time the snapshot was taken.
func (g GaugeFloat64Snapshot) Value() float64 { return float64(g) }

// NilGauge is a no-op Gauge.
type NilGaugeFloat64 struct{}

// Snapshot is a no-op.
func (NilGaugeFloat64) Snapshot() GaugeFloat64 { return NilGaugeFloat64{} }

// Update is a no-op.
func (NilGaugeFloat64) Update(v float64) {}

// Value is a no-op.
func (NilGaugeFloat64) Value() float64 { return 0.0 }

// StandardGaugeFloat64 is the standard implementation of a GaugeFloat64 and uses
// sync.Mutex to manage a single float64 value.
type StandardGaugeFloat64 struct {
	value uint64
}

// Snapshot returns a read-only copy of the gauge.
func (g *StandardGaugeFloat64) Snapshot() GaugeFloat64 {
	return GaugeFloat64Snapshot(g.Value())
}

// Update updates the gauge's value.
func (g *StandardGaugeFloat64) Update(v float64) {
	atomic.StoreUint64(&g.value, math.Float64bits(v))
}

// Value returns the gauge's current value.
func (g *StandardGaugeFloat64) Value() float64 {
	return math.Float64frombits(atomic.LoadUint64(&g.value))
}

// FunctionalGaugeFloat64 returns value from given function
type FunctionalGaugeFloat64 struct {
	value func() float64
}

// Value returns the gauge's current value.
func (g FunctionalGaugeFloat64) Value() float64 {
	return g.value()
}

// Snapshot returns the snapshot.
func (g FunctionalGaugeFloat64) Snapshot() GaugeFloat64 { return GaugeFloat64Snapshot(g.Value()) }

// Update panics.
func (FunctionalGaugeFloat64) Update(float64) {
	panic("Update called on a FunctionalGaugeFloat64")
}
