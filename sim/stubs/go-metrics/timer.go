package metrics

import (
	"sync"
	"time"
)

// Timers capture the duration and rate of events.
type Timer interface {
	Count() int64
	Max() int64
	Mean() float64
	Min() int64
	Percentile(float64) float64
	Percentiles([]float64) []float64
	Rate1() float64
	Rate5() float64
	Rate15() float64
	RateMean() float64
	Snapshot() Timer
	StdDev() float64
	Stop()
	Sum() int64
	Time(func())
	Update(time.Duration)
	UpdateSince(time.Time)
	Variance() float64
}

// GetOrRegisterTimer returns an existing Timer or constructs and registers a
// new StandardTimer.
// Be sure to unregister the meter from the registry once it is of no use to
// allow for garbage collection.
func GetOrRegisterTimer(name string, r Registry) Timer {
	if nil == r {
		r = DefaultRegistry
	}
	return r.GetOrRegister(name, NewTimer).(Timer)
}

// NewCustomTimer constructs a new StandardTimer from a Histogram and a Meter.
// Be sure to call Stop() once the timer is of no use to allow for garbage collection.
func NewCustomTimer(h Histogram, m Meter) Timer {
	if UseNilMetrics {
		return NilTimer{}
	}
	return &StandardTimer{
		histogram: h,
		meter:     m,
	}
}

// NewRegisteredTimer constructs and registers a new StandardTimer.
// Be sure to unregister the meter from the registry once it is of no use to
// allow for garbage collection.
func NewRegisteredTimer(name string, r Registry) Timer {
	c := NewTimer()
	if nil == r {
		r = DefaultRegistry
	}
	r.Register(name, c)
	return c
}

// NewTimer constructs a new StandardTimer using an exponentially-decaying
// sample with the same reservoir size and alpha as UNIX load averages.
// Be sure to call Stop() once the timer is of no use to allow for garbage collection.
func NewTimer() Timer {
	if UseNilMetrics {
		return NilTimer{}
	}
	return &StandardTimer{
		histogram: NewHistogram(NewExpDecaySample(1028, 0.015)),
		meter:     NewMeter(),
	}
}

// NilTimer is a no-op Timer.
type NilTimer struct {
	h Histogram
	m Meter
}

// Count is a no-op.
func (NilTimer) Count() int64 { return 0 }

// Max is a no-op.
func (NilTimer) Max() int64 { return 0 }

// Mean is a no-op.
func (NilTimer) Mean() float64 { return 0.0 }

// Min is a no-op.
func (NilTimer) Min() int64 { return 0 }

// Percentile is a no-op.
func (NilTimer) Percentile(p float64) float64 { return 0.0 }

// Percentiles is a no-op.
func (NilTimer) Percentiles(ps []float64) []float64 {
	return make([]float64, len(ps))
}

// Rate1 is a no-op.
func (NilTimer) Rate1() float64 { return 0.0 }

// Rate5 is a no-op.
func (NilTimer) Rate5() float64 { return 0.0 }

// Rate15 is a no-op.
func (NilTimer) Rate15() float64 { return 0.0 }

// RateMean is a no-op.
func (NilTimer) RateMean() float64 { return 0.0 }

// Snapshot is a no-op.
func (NilTimer) Snapshot() Timer { return NilTimer{} }

// StdDev is a no-op.
func (NilTimer) StdDev() float64 { return 0.0 }

// Stop is a no-op.
func (NilTimer) Stop() {}

// Sum is a no-op.
func (NilTimer) Sum() int64 { return 0 }

// Time is a no-op.
func (NilTimer) Time(func()) {}

// Update is a no-op.
func (NilTimer) Update(time.Duration) {}

// UpdateSince is a no-op.
func (NilTimer) UpdateSince(time.Time) {}

// Variance is a no-op.
func (NilTimer) Variance() float64 { return 0.0 }

// StandardTimer is the standard implementation of a Timer and uses a Histogram
// and Meter.
type StandardTimer struct {
	histogram Histogram
	meter     Meter
	mutex     sync.Mutex
}

// Count returns the number of events recorded.
func (t *StandardTimer) Count() int64 {
	return t.histogram.Count()
}

// Max returns the maximum value in the sample.
func (t *StandardTimer) Max() int64 {
	return t.histogram.Max()
}

// Mean returns the mean of the values in the sample.
func (t *StandardTimer) Mean() float64 {
	return t.histogram.Mean()
}

// Min returns the minimum value in the sample.
func (t *StandardTimer) Min() int64 {
	return t.histogram.Min()
}

// Percentile returns an arbitrary percentile of the values in the sample.
func (t *StandardTimer) Percentile(p float64) float64 {
	return t.histogram.Percentile(p)
}

// Percentiles returns a slice of arbitrary percentiles of the values in the
// sample.
func (t *StandardTimer) Percentiles(ps []float64) []float64 {
	return t.histogram.Percentiles(ps)
}

// Rate1 returns the one-minute moving average rate of events per second.
func (t *StandardTimer) Rate1() float64 {
	return t.meter.Rate1()
}

// Rate5 returns the five-minute moving average rate of events per second.
func (t *StandardTimer) Rate5() float64 {
	return t.meter.Rate5()
}

// Rate15 returns the fifteen-minute moving average rate of events per second.
func (t *StandardTimer) Rate15() float64 {
	return t.meter.Rate15()
}

// RateMean returns the meter's mean rate of events per second.
func (t *StandardTimer) RateMean() float64 {
	return t.meter.RateMean()
}

// Snapshot returns a read-only copy of the timer.
func (t *StandardTimer) Snapshot() Timer {
	t.mutex.Lock()
	defer t.mutex.Unlock()
	return &TimerSnapshot{
		histogram: t.histogram.Snapshot().(*HistogramSnapshot),
		meter:     t.meter.Snapshot().(*MeterSnapshot),
	}
}

// StdDev returns the standard deviation of the values in the sample.
func (t *StandardTimer) StdDev() float64 {
	return t.histogram.StdDev()
}

// Stop stops the meter.
func (t *StandardTimer) Stop() {
	t.meter.Stop()
}

// Sum returns the sum in the sample.
func (t *StandardTimer) Sum() int64 {
	return t.histogram.Sum()
}

// Record the duration of the execution of the given function.
func (t *StandardTimer) Time(f func()) {
	ts := time.Now()
	f()
	t.Update(time.Since(ts))
}

// Record the duration of an event.
func (t *StandardTimer) Update(d time.Duration) {
	t.mutex.Lock()
	defer t.mutex.Unlock()
	t.histogram.Update(int64(d))
	t.meter.Mark(1)
}

// Record the duration of an event that started at a time and ends now.
func (t *StandardTimer) UpdateSince(ts time.Time) {
	t.mutex.Lock()
	defer t.mutex.Unlock()
	t.histogram.Update(int64(time.Since(ts)))
	t.meter.Mark(1)
}

// Variance returns the variance of the values in the sample.
func (t *StandardTimer) Variance() float64 {
	return t.histogram.Variance()
}

// TimerSnapshot is a read-only copy of another Timer.
type TimerSnapshot struct {
	histogram *HistogramSnapshot
	meter     *MeterSnapshot
}

// Count returns the number of events recorded at the time the snapshot was
// taken.
func (t *TimerSnapshot) Count() int64 { return t.histogram.Count() }

// Max returns the maximum value at the time the snapshot was taken.
func (t *TimerSnapshot) Max() int64 { return t.histogram.Max() }

// Mean returns the mean value at the time the snapshot was taken.
func (t *TimerSnapshot) Mean() float64 { return t.histogram.Mean() }

// Min returns the minimum value at the time the snapshot was taken.
func (t *TimerSnapshot) Min() int64 { return t.histogram.Min() }

// Percentile returns an arbitrary percentile of sampled values at the time the
// snapshot was taken.
func (t *TimerSnapshot) Percentile(p float64) float64 {
	return t.histogram.Percentile(p)
}

// Percentiles returns a slice of arbitrary percentiles of sampled values at
// the time the snapshot was taken.
func (t *TimerSnapshot) Percentiles(ps []float64) []float64 {
	return t.histogram.Percentiles(ps)
}

// Rate1 returns the one-minute moving average rate of events per second at the
// time the snapshot was taken.
func (t *TimerSnapshot) Rate1() float64 { return t.meter.Rate1() }

// Rate5 returns the five-minute moving average rate of events per second at
// the time the snapshot was taken.
func (t *TimerSnapshot) Rate5() float64 { return t.meter.Rate5() }

// Rate15 returns the fifteen-minute moving average rate of events per second
// at the time the snapshot was taken.
func (t *TimerSnapshot) Rate15() float64 { return t.meter.Rate15() }

// RateMean returns the meter's mean rate of events per second at the time the
// snapshot was taken.
func (t *TimerSnapshot) RateMean() float64 { return t.meter.RateMean() }

// Snapshot returns the snapshot.
func (t *TimerSnapshot) Snapshot() Timer { return t }

// StdDev returns the standard deviation of the values at the time the snapshot
// was taken.
func (t *TimerSnapshot) StdDev() float64 { return t.histogram.StdDev() }

// Stop is a no-op.
func (t *TimerSnapshot) Stop() {}

// Sum returns the sum at the time the snapshot was taken.
func (t *TimerSnapshot) Sum() int64 { return t.histogram.Sum() }

// Time panics.
func (*TimerSnapshot) Time(func()) {
	panic("Time called on a TimerSnapshot")
}

// Update panics.
func (*TimerSnapshot) Update(time.Duration) {
	panic("Update called on a TimerSnapshot")
}

// UpdateSince panics.
func (*TimerSnapshot) UpdateSince(time.Time) {
	panic("UpdateSince called on a TimerSnapshot")
}

// Variance returns the variance of the values at the time the snapshot was
// taken.
func (t *TimerSnapshot) Variance() float64 { return t.histogram.Variance() }
