package metrics

import "sync/atomic"

// Counters hold an int64 value that can be incremented and decremented.
type Counter interface {
	Clear()
	Count() int64
	Dec(int64)
	Inc(int64)
	Snapshot() Counter
}

// GetOrRegisterCounter returns an existing Counter or constructs and registers
// a new StandardCounter.
func GetOrRegisterCounter(name string, r Registry) Counter {
	if nil == r {
		r = DefaultRegistry
	}
	return r.GetOrRegister(name, NewCounter).(Counter)
}

// NewCounter constructs a new StandardCounter.
func NewCounter() Counter {
	if UseNilMetrics {
		return NilCounter{}
	}
	return &StandardCounter{0}
}

// NewRegisteredCounter constructs and registers a new StandardCounter.
func NewRegisteredCounter(name string, r Registry) Counter {
	c := NewCounter()
	if nil == r {
		r = DefaultRegistry
	}
	r.Register(name, c)
	return c
}

// CounterSnapshot is a read-only copy of another Counter.
type CounterSnapshot int64

// Clear panics.
func (CounterSnapshot) Clear() {
	panic("Clear called on a CounterSnapshot")
}

// Count returns the count at the time the snapshot was taken.
func (c CounterSnapshot) Count() int64 { return int64(c) }

// Dec panics.
func (CounterSnapshot) Dec(int64) {
	panic("Dec called on a CounterSnapshot")
}

// Inc panics.
func (CounterSnapshot) Inc(int64) {
	panic("Inc called on a CounterSnapshot")
}

// Snapshot returns the snapshot.
func (c CounterSnapshot) Snapshot() Counter { return c }

// NilCounter is a no-op Counter.
type NilCounter struct{}

// Clear is a no-op.
func (NilCounter) Clear() {}

// Count is a no-op.
func (NilCounter) Count() int64 { return 0 }

// Dec is a no-op.
func (NilCounter) Dec(i int64) {}

// Inc is a no-op.
func (NilCounter) Inc(i int64) {}

// Snapshot is a no-op.
func (NilCounter) Snapshot() Counter { return NilCounter{} }

// StandardCounter is the standard implementation of a Counter and uses the
// sync/atomic package to manage a single int64 value.
type StandardCounter struct {
	count int64
}

// Clear sets the counter to zero.
func (c *StandardCounter) Clear() {
	atomic.StoreInt64(&c.count, 0)
}

// Count returns the current count.
func (c *StandardCounter) Count() int64 {
	return atomic.LoadInt64(&c.count)
}

// Dec decrements the counter by the given amount.
func (c *StandardCounter) Dec(i int64) {
	atomic.AddInt64(&c.count, -i)
}

// Inc increments the counter by the given amount.
func (c *StandardCounter) Inc(i int64) {
	atomic.AddInt64(&c.count, i)
}

// Snapshot returns a read-only copy of the counter.
func (c *StandardCounter) Snapshot() Counter {
	return CounterSnapshot(c.Count())
}
