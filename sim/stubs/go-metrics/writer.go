package metrics

import (
	"fmt"
	"io"
	"sort"
	"time"
)

// Write sorts writes each metric in the given registry periodically to the
// given io.Writer.
func Write(r Registry, d time.Duration, w io.Writer) {
	for _ = range time.Tick(d) {
		WriteOnce(r, w)
	}
}

// WriteOnce sorts and writes metrics in the given registry to the given
// io.Writer.
func WriteOnce(r Registry, w io.Writer) {
	var namedMetrics namedMetricSlice
	r.Each(func(name string, i interface{}) {
		namedMetrics = append(namedMetrics, namedMetric{name, i})
	})

	sort.Sort(namedMetrics)
	for _, namedMetric := range namedMetrics {
		switch metric := namedMetric.m.(type) {
		case Counter:
			fmt.Fprintf(w, "counter %s\n", namedMetric.name)
			fmt.Fprintf(w, "  count:       %9d\n", metric.Count())
		case Gauge:
			fmt.Fprintf(w, "gauge %s\n", namedMetric.name)
			fmt.Fprintf(w, "  value:       %9d\n", metric.Value())
		case GaugeFloat64:
			fmt.Fprintf(w, "gauge %s\n", namedMetric.name)
			fmt.Fprintf(w, "  value:       %f\n", metric.Value())
		case Healthcheck:
			metric.Check()
			fmt.Fprintf(w, "healthcheck %s\n", namedMetric.name)
			fmt.Fprintf(w, "  error:       %v\n", metric.Error())
		case Histogram:
			h := metric.Snapshot()
			ps := h.Percentiles([]float64{0.5, 0.75, 0.95, 0.99, 0.999})
			fmt.Fprintf(w, "histogram %s\n", namedMetric.name)
			fmt.Fprintf(w, "  count:       %9d\n", h.Count())
			fmt.Fprintf(w, "  min:         %9d\n", h.Min())
			fmt.Fprintf(w, "  max:         %9d\n", h.Max())
			fmt.Fprintf(w, "  mean:        %12.2f\n", h.Mean())
			fmt.Fprintf(w, "  stddev:      %12.2f\n", h.StdDev())
			fmt.Fprintf(w, "  median:      %12.2f\n", ps[0])
			fmt.Fprintf(w, "  75%%:         %12.2f\n", ps[1])
			fmt.Fprintf(w, "  95%%:         %12.2f\n", ps[2])
			fmt.Fprintf(w, "  99%%:         %12.2f\n", ps[3])
			fmt.Fprintf(w, "  99.9%%:       %12.2f\n", ps[4])
		case Meter:
			m := metric.Snapshot()
			fmt.Fprintf(w, "meter %s\n", namedMetric.name)
			fmt.Fprintf(w, "  count:       %9d\n", m.Count())
			fmt.Fprintf(w, "  1-min rate:  %12.2f\n", m.Rate1())
			fmt.Fprintf(w, "  5-min rate:  %12.2f\n", m.Rate5())
			fmt.Fprintf(w, "  15-min rate: %12.2f\n", m.Rate15())
			fmt.Fprintf(w, "  mean rate:   %12.2f\n", m.RateMean())
		case Timer:
			t := metric.Snapshot()
			ps := t.Percentiles([]float64{0.5, 0.75, 0.95, 0.99, 0.999})
			fmt.Fprintf(w, "timer %s\n", namedMetric.name)
			fmt.Fprintf(w, "  count:       %9d\n", t.Count())
			fmt.Fprintf(w, "  min:         %9d\n", t.Min())
			fmt.Fprintf(w, "  max:         %9d\n", t.Max())
			fmt.Fprintf(w, "  mean:        %12.2f\n", t.Mean())
			fmt.Fprintf(w, "  stddev:      %12.2f\n", t.StdDev())
			fmt.Fprintf(w, "  median:      %12.2f\n", ps[0])
			fmt.Fprintf(w, "  75%%:         %12.2f\n", ps[1])
			fmt.Fprintf(w, "  95%%:         %12.2f\n", ps[2])
			fmt.Fprintf(w, "  99%%:         %12.2f\n", ps[3])
			fmt.Fprintf(w, "  99.9%%:       %12.2f\n", ps[4])
			fmt.Fprintf(w, "  1-min rate:  %12.2f\n", t.Rate1())
			fmt.Fprintf(w, "  5-min rate:  %12.2f\n", t.Rate5())
			fmt.Fprintf(w, "  15-min rate: %12.2f\n", t.Rate15())
			fmt.Fprintf(w, "  mean rate:   %12.2f\n", t.RateMean())
		}
	}
}

type namedMetric struct {
	name string
	m    interface{}
}

// namedMetricSlice is a slice of namedMetrics that implements sort.Interface.
type namedMetricSlice []namedMetric

func (nms namedMetricSlice) Len() int { return len(nms) }

func (nms namedMetricSlice) Swap(i, j int) { nms[i], nms[j] = nms[j], nms[i] }

func (nms namedMetricSlice) Less(i, j int) bool {
	return nms[i].name < nms[j].name
}
