package metrics

import (
	"math"
	"sync"
	"sync/atomic"
)

// EWMAs continuously calculate an exponentially-weighted moving average
// based on an outside source of clock ticks.
type EWMA interface {
	Rate() float64
	Snapshot() EWMA
	Tick()
	Update(int64)
}

// NewEWMA constructs a new EWMA with the given alpha.
func NewEWMA(alpha float64) EWMA {
	if UseNilMetrics {
		return NilEWMA{}
	}
	return &StandardEWMA{alpha: alpha}
}

// NewEWMA1 constructs a new EWMA for a one-minute moving average.
func NewEWMA1() EWMA {
	return NewEWMA(1 - math.Exp(-5.0/60.0/1))
}

// NewEWMA5 constructs a new EWMA for a five-minute moving average.
func NewEWMA5() EWMA {
	return NewEWMA(1 - math.Exp(-5.0/60.0/5))
}

// NewEWMA15 constructs a new EWMA for a fifteen-minute moving average.
func NewEWMA15() EWMA {
	return NewEWMA(1 - math.Exp(-5.0/60.0/15))
}

// EWMASnapshot is a read-only copy of another EWMA.
type EWMASnapshot float64

// Rate returns the rate of events per second at the time the snapshot was
// taken.
func (a EWMASnapshot) Rate() float64 { return float64(a) }

// Snapshot returns the snapshot.
func (a EWMASnapshot) Snapshot() EWMA { return a }

// Tick panics.
func (EWMASnapshot) Tick() {
	panic("Tick called on an EWMASnapshot")
}

// Update panics.
func (EWMASnapshot) Update(int64) {
	panic("Update called on an EWMASnapshot")
}

// NilEWMA is a no-op EWMA.
type NilEWMA struct{}

// Rate is a no-op.
func (NilEWMA) Rate() float64 { return 0.0 }

// Snapshot is a no-op.
func (NilEWMA) Snapshot() EWMA { return NilEWMA{} }

// Tick is a no-op.
func (NilEWMA) Tick() {}

// Update is a no-op.
func (NilEWMA) Update(n int64) {}

// StandardEWMA is the standard implementation of an EWMA and tracks the number
// of uncounted events and processes them on each tick.  It uses the
// sync/atomic package to manage uncounted events.
type StandardEWMA struct {
	uncounted int64 // /!\ this should be the first member to ensure 64-bit alignment
	alpha     float64
	rate      uint64
	init      uint32
	mutex     sync.Mutex
}

// Rate returns the moving average rate of events per second.
func (a *StandardEWMA) Rate() float64 {
	currentRate := math.Float64frombits(atomic.LoadUint64(&a.rate)) * float64(1e9)
	return currentRate
}

// Snapshot returns a read-only copy of the EWMA.
func (a *StandardEWMA) Snapshot() EWMA {
	return EWMASnapshot(a.Rate())
}

// Tick ticks the clock to update the moving average.  It assumes it is called
// every five seconds.
func (a *StandardEWMA) Tick() {
	// Optimization to avoid mutex locking in the hot-path.
	if atomic.LoadUint32(&a.init) == 1 {
		a.updateRate(a.fetchInstantRate())
	} else {
		// Slow-path: this is only needed on the first Tick() and preserves transactional updating
		// of init and rate in the else block. The first conditional is needed below because
		// a different thread could have set a.init = 1 between the time of the first atomic load and when
		// the lock was acquired.
		a.mutex.Lock()
		if atomic.LoadUint32(&a.init) == 1 {
			// The fetchInstantRate() uses atomic loading, which is unecessary in this critical section
			// but again, this section is only invoked on the first successful Tick() operation.
			a.updateRate(a.fetchInstantRate())
		} else {
			atomic.StoreUint32(&a.init, 1)
			atomic.StoreUint64(&a.rate, math.Float64bits(a.fetchInstantRate()))
		}
		a.mutex.Unlock()
	}
}

func (a *StandardEWMA) fetchInstantRate() float64 {
	count := atomic.LoadInt64(&a.uncounted)
	atomic.AddInt64(&a.uncounted, -count)
	instantRate := float64(count) / float64(5e9)
	return instantRate
}

func (a *StandardEWMA) updateRate(instantRate float64) {
	currentRate := math.Float64frombits(atomic.LoadUint64(&a.rate))
	currentRate += a.alpha * (instantRate - currentRate)
	atomic.StoreUint64(&a.rate, math.Float64bits(currentRate))
}

// Update adds n uncounted events.
func (a *StandardEWMA) Update(n int64) {
	atomic.AddInt64(&a.uncounted, n)
}
