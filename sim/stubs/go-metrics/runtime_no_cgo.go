// +build !cgo appengine

package metrics

func numCgoCall() int64 {
	return 0
}
