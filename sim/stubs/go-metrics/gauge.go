package metrics

import "sync/atomic"

// Gauges hold an int64 value that can be set arbitrarily.
type Gauge interface {
	Snapshot() Gauge
	Update(int64)
	Value() int64
}

// GetOrRegisterGauge returns an existing Gauge or constructs and registers a
// new StandardGauge.
func GetOrRegisterGauge(name string, r Registry) Gauge {
	if nil == r {
		r = DefaultRegistry
	}
	return r.GetOrRegister(name, NewGauge).(Gauge)
}

// NewGauge constructs a new StandardGauge.
func NewGauge() Gauge {
	if UseNilMetrics {
		return NilGauge{}
	}
	return &StandardGauge{0}
}

// NewRegisteredGauge constructs and registers a new StandardGauge.
func NewRegisteredGauge(name string, r Registry) Gauge {
	c := NewGauge()
	if nil == r {
		r = DefaultRegistry
	}
	r.Register(name, c)
	return c
}

// NewFunctionalGauge constructs a new FunctionalGauge.
func NewFunctionalGauge(f func() int64) Gauge {
	if UseNilMetrics {
		return NilGauge{}
	}
	return &FunctionalGauge{value: f}
}

// NewRegisteredFunctionalGauge constructs and registers a new StandardGauge.
func NewRegisteredFunctionalGauge(name string, r Registry, f func() int64) Gauge {
	c := NewFunctionalGauge(f)
	if nil == r {
		r = DefaultRegistry
	}
	r.Register(name, c)
	return c
}

// GaugeSnapshot is a read-only copy of another Gauge.
type GaugeSnapshot int64

// Snapshot returns the snapshot.
func (g GaugeSnapshot) Snapshot() Gauge { return g }

// Update panics.
func (GaugeSnapshot) Update(int64) {
	panic("Update called on a GaugeSnapshot")
}

// Value returns the value at the time the snapshot was taken.
func (g GaugeSnapshot) Value() int64 { return int64(g) }

// NilGauge is a no-op Gauge.
type NilGauge struct{}

// Snapshot is a no-op.
func (NilGauge) Snapshot() Gauge { return NilGauge{} }

// Update is a no-op.
func (NilGauge) Update(v int64) {}

// Value is a no-op.
func (NilGauge) Value() int64 { return 0 }

// StandardGauge is the standard implementation of a Gauge and uses the
// sync/atomic package to manage a single int64 value.
type StandardGauge struct {
	value int64
}

// Snapshot returns a read-only copy of the gauge.
func (g *StandardGauge) Snapshot() Gauge {
	return GaugeSnapshot(g.Value())
}

// Update updates the gauge's value.
func (g *StandardGauge) Update(v int64) {
	atomic.StoreInt64(&g.value, v)
}

// Value returns the gauge's current value.
func (g *StandardGauge) Value() int64 {
	return atomic.LoadInt64(&g.value)
}

// FunctionalGauge returns value from given function
type FunctionalGauge struct {
	value func() int64
}

// Value returns the gauge's current value.
func (g FunctionalGauge) Value() int64 {
	return g.value()
}

// Snapshot returns the snapshot.
func (g FunctionalGauge) Snapshot() Gauge { return GaugeSnapshot(g.Value()) }

// Update panics.
func (FunctionalGauge) Update(int64) {
	panic("Update called on a FunctionalGauge")
}
