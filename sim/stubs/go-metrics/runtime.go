package metrics

import (
	"runtime"
	"runtime/pprof"
	"sync"
	"time"
)

var (
	memStats       runtime.MemStats
	runtimeMetrics struct {
		MemStats struct {
			Alloc         Gauge
			BuckHashSys   Gauge
			DebugGC       Gauge
			EnableGC      Gauge
			Frees         Gauge
			HeapAlloc     Gauge
			HeapIdle      Gauge
			HeapInuse     Gauge
			HeapObjects   Gauge
			HeapReleased  Gauge
			HeapSys       Gauge
			LastGC        Gauge
			Lookups       Gauge
			Mallocs       Gauge
			MCacheInuse   Gauge
			MCacheSys     Gauge
			MSpanInuse    Gauge
			MSpanSys      Gauge
			NextGC        Gauge
			NumGC         Gauge
			GCCPUFraction GaugeFloat64
			PauseNs       Histogram
			PauseTotalNs  Gauge
			StackInuse    Gauge
			StackSys      Gauge
			Sys           Gauge
			TotalAlloc    Gauge
		}
		NumCgoCall   Gauge
		NumGoroutine Gauge
		NumThread    Gauge
		ReadMemStats Timer
	}
	frees       uint64
	lookups     uint64
	mallocs     uint64
	numGC       uint32
	numCgoCalls int64

	threadCreateProfile        = pprof.Lookup("threadcreate")
	registerRuntimeMetricsOnce = sync.Once{}
)

// Capture new values for the Go runtime statistics exported in
// runtime.MemStats.  This is designed to be called as a goroutine.
func CaptureRuntimeMemStats(r Registry, d time.Duration) {
	for _ = range time.Tick(d) {
		CaptureRuntimeMemStatsOnce(r)
	}
}

// Capture new values for the Go runtime statistics exported in
// runtime.MemStats.  This is designed to be called in a background
// goroutine.  Giving a registry which has not been given to
// RegisterRuntimeMemStats will panic.
//
// Be very careful with this because runtime.ReadMemStats calls the C
// functions runtime·semacquire(&runtime·worldsema) and runtime·stoptheworld()
// and that last one does what it says on the tin.
func CaptureRuntimeMemStatsOnce(r Registry) {
	t := time.Now()
	runtime.ReadMemStats(&memStats) // This takes 50-200us.
	runtimeMetrics.ReadMemStats.UpdateSince(t)

	runtimeMetrics.MemStats.Alloc.Update(int64(memStats.Alloc))
	runtimeMetrics.MemStats.BuckHashSys.Update(int64(memStats.BuckHashSys))
	if memStats.DebugGC {
		runtimeMetrics.MemStats.DebugGC.Update(1)
	} else {
		runtimeMetrics.MemStats.DebugGC.Update(0)
	}
	if memStats.EnableGC {
		runtimeMetrics.MemStats.EnableGC.Update(1)
	} else {
		runtimeMetrics.MemStats.EnableGC.Update(0)
	}

	runtimeMetrics.MemStats.Frees.Update(int64(memStats.Frees - frees))
	runtimeMetrics.MemStats.HeapAlloc.Update(int64(memStats.HeapAlloc))
	runtimeMetrics.MemStats.HeapIdle.Update(int64(memStats.HeapIdle))
	runtimeMetrics.MemStats.HeapInuse.Update(int64(memStats.HeapInuse))
	runtimeMetrics.MemStats.HeapObjects.Update(int64(memStats.HeapObjects))
	runtimeMetrics.MemStats.HeapReleased.Update(int64(memStats.HeapReleased))
	runtimeMetrics.MemStats.HeapSys.Update(int64(memStats.HeapSys))
	runtimeMetrics.MemStats.LastGC.Update(int64(memStats.LastGC))
	runtimeMetrics.MemStats.Lookups.Update(int64(memStats.Lookups - lookups))
	runtimeMetrics.MemStats.Mallocs.Update(int64(memStats.Mallocs - mallocs))
	runtimeMetrics.MemStats.MCacheInuse.Update(int64(memStats.MCacheInuse))
	runtimeMetrics.MemStats.MCacheSys.Update(int64(memStats.MCacheSys))
	runtimeMetrics.MemStats.MSpanInuse.Update(int64(memStats.MSpanInuse))
	runtimeMetrics.MemStats.MSpanSys.Update(int64(memStats.MSpanSys))
	runtimeMetrics.MemStats.NextGC.Update(int64(memStats.NextGC))
	runtimeMetrics.MemStats.NumGC.Update(int64(memStats.NumGC - numGC))
	runtimeMetrics.MemStats.GCCPUFraction.Update(gcCPUFraction(&memStats))

	// <https://code.google.com/p/go/source/browse/src/pkg/runtime/mgc0.c>
	i := numGC % uint32(len(memStats.PauseNs))
	ii := memStats.NumGC % uint32(len(memStats.PauseNs))
	if memStats.NumGC-numGC >= uint32(len(memStats.PauseNs)) {
		for i = 0; i < uint32(len(memStats.PauseNs)); i++ {
			runtimeMetrics.MemStats.PauseNs.Update(int64(memStats.PauseNs[i]))
		}
	} else {
		if i > ii {
			for ; i < uint32(len(memStats.PauseNs)); i++ {
				runtimeMetrics.MemStats.PauseNs.Update(int64(memStats.PauseNs[i]))
			}
			i = 0
		}
		for ; i < ii; i++ {
			runtimeMetrics.MemStats.PauseNs.Update(int64(memStats.PauseNs[i]))
		}
	}
	frees = memStats.Frees
	lookups = memStats.Lookups
	mallocs = memStats.Mallocs
	numGC = memStats.NumGC

	runtimeMetrics.MemStats.PauseTotalNs.Update(int64(memStats.PauseTotalNs))
	runtimeMetrics.MemStats.StackInuse.Update(int64(memStats.StackInuse))
	runtimeMetrics.MemStats.StackSys.Update(int64(memStats.StackSys))
	runtimeMetrics.MemStats.Sys.Update(int64(memStats.Sys))
	runtimeMetrics.MemStats.TotalAlloc.Update(int64(memStats.TotalAlloc))

	currentNumCgoCalls := numCgoCall()
	runtimeMetrics.NumCgoCall.Update(currentNumCgoCalls - numCgoCalls)
	numCgoCalls = currentNumCgoCalls

	runtimeMetrics.NumGoroutine.Update(int64(runtime.NumGoroutine()))

	runtimeMetrics.NumThread.Update(int64(threadCreateProfile.Count()))
}

// Register runtimeMetrics for the Go runtime statistics exported in runtime and
// specifically runtime.MemStats.  The runtimeMetrics are named by their
// fully-qualified Go symbols, i.e. runtime.MemStats.Alloc.
func RegisterRuntimeMemStats(r Registry) {
	registerRuntimeMetricsOnce.Do(func() {
		runtimeMetrics.MemStats.Alloc = NewGauge()
		runtimeMetrics.MemStats.BuckHashSys = NewGauge()
		runtimeMetrics.MemStats.DebugGC = NewGauge()
		runtimeMetrics.MemStats.EnableGC = NewGauge()
		runtimeMetrics.MemStats.Frees = NewGauge()
		runtimeMetrics.MemStats.HeapAlloc = NewGauge()
		runtimeMetrics.MemStats.HeapIdle = NewGauge()
		runtimeMetrics.MemStats.HeapInuse = NewGauge()
		runtimeMetrics.MemStats.HeapObjects = NewGauge()
		runtimeMetrics.MemStats.HeapReleased = NewGauge()
		runtimeMetrics.MemStats.HeapSys = NewGauge()
		runtimeMetrics.MemStats.LastGC = NewGauge()
		runtimeMetrics.MemStats.Lookups = NewGauge()
		runtimeMetrics.MemStats.Mallocs = NewGauge()
		runtimeMetrics.MemStats.MCacheInuse = NewGauge()
		runtimeMetrics.MemStats.MCacheSys = NewGauge()
		runtimeMetrics.MemStats.MSpanInuse = NewGauge()
		runtimeMetrics.MemStats.MSpanSys = NewGauge()
		runtimeMetrics.MemStats.NextGC = NewGauge()
		runtimeMetrics.MemStats.NumGC = NewGauge()
		runtimeMetrics.MemStats.GCCPUFraction = NewGaugeFloat64()
		runtimeMetrics.MemStats.PauseNs = NewHistogram(NewExpDecaySample(1028, 0.015))
		runtimeMetrics.MemStats.PauseTotalNs = NewGauge()
		runtimeMetrics.MemStats.StackInuse = NewGauge()
		runtimeMetrics.MemStats.StackSys = NewGauge()
		runtimeMetrics.MemStats.Sys = NewGauge()
		runtimeMetrics.MemStats.TotalAlloc = NewGauge()
		runtimeMetrics.NumCgoCall = NewGauge()
		runtimeMetrics.NumGoroutine = NewGauge()
		runtimeMetrics.NumThread = NewGauge()
		runtimeMetrics.ReadMemStats = NewTimer()

		r.Register("runtime.MemStats.Alloc", runtimeMetrics.MemStats.Alloc)
		r.Register("runtime.MemStats.BuckHashSys", runtimeMetrics.MemStats.BuckHashSys)
		r.Register("runtime.MemStats.DebugGC", runtimeMetrics.MemStats.DebugGC)
		r.Register("runtime.MemStats.EnableGC", runtimeMetrics.MemStats.EnableGC)
		r.Register("runtime.MemStats.Frees", runtimeMetrics.MemStats.Frees)
		r.Register("runtime.MemStats.HeapAlloc", runtimeMetrics.MemStats.HeapAlloc)
		r.Register("runtime.MemStats.HeapIdle", runtimeMetrics.MemStats.HeapIdle)
		r.Register("runtime.MemStats.HeapInuse", runtimeMetrics.MemStats.HeapInuse)
		r.Register("runtime.MemStats.HeapObjects", runtimeMetrics.MemStats.HeapObjects)
		r.Register("runtime.MemStats.HeapReleased", runtimeMetrics.MemStats.HeapReleased)
		r.Register("runtime.MemStats.HeapSys", runtimeMetrics.MemStats.HeapSys)
		r.Register("runtime.MemStats.LastGC", runtimeMetrics.MemStats.LastGC)
		r.Register("runtime.MemStats.Lookups", runtimeMetrics.MemStats.Lookups)
		r.Register("runtime.MemStats.Mallocs", runtimeMetrics.MemStats.Mallocs)
		r.Register("runtime.MemStats.MCacheInuse", runtimeMetrics.MemStats.MCacheInuse)
		r.Register("runtime.MemStats.MCacheSys", runtimeMetrics.MemStats.MCacheSys)
		r.Register("runtime.MemStats.MSpanInuse", runtimeMetrics.MemStats.MSpanInuse)
		r.Register("runtime.MemStats.MSpanSys", runtimeMetrics.MemStats.MSpanSys)
		r.Register("runtime.MemStats.NextGC", runtimeMetrics.MemStats.NextGC)
		r.Register("runtime.MemStats.NumGC", runtimeMetrics.MemStats.NumGC)
		r.Register("runtime.MemStats.GCCPUFraction", runtimeMetrics.MemStats.GCCPUFraction)
		r.Register("runtime.MemStats.PauseNs", runtimeMetrics.MemStats.PauseNs)
		r.Register("runtime.MemStats.PauseTotalNs", runtimeMetrics.MemStats.PauseTotalNs)
		r.Register("runtime.MemStats.StackInuse", runtimeMetrics.MemStats.StackInuse)
		r.Register("runtime.MemStats.StackSys", runtimeMetrics.MemStats.StackSys)
		r.Register("runtime.MemStats.Sys", runtimeMetrics.MemStats.Sys)
		r.Register("runtime.MemStats.TotalAlloc", runtimeMetrics.MemStats.TotalAlloc)
		r.Register("runtime.NumCgoCall", runtimeMetrics.NumCgoCall)
		r.Register("runtime.NumGoroutine", runtimeMetrics.NumGoroutine)
		r.Register("runtime.NumThread", runtimeMetrics.NumThread)
		r.Register("runtime.ReadMemStats", runtimeMetrics.ReadMemStats)
	})
}
