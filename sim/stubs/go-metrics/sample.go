package metrics

import (
	"math"
	"math/rand"
	"sort"
	"sync"
	"time"
)

const rescaleThreshold = time.Hour

// Samples maintain a statistically-significant selection of values from
// a stream.
type Sample interface {
	Clear()
	Count() int64
	Max() int64
	Mean() float64
	Min() int64
	Percentile(float64) float64
	Percentiles([]float64) []float64
	Size() int
	Snapshot() Sample
	StdDev() float64
	Sum() int64
	Update(int64)
	Values() []int64
	Variance() float64
}

// ExpDecaySample is an exponentially-decaying sample using a forward-decaying
// priority reservoir.  See Cormode et al's "Forward Decay: A Practical Time
// Decay Model for Streaming Systems".
//
// <http://dimacs.rutgers.edu/~graham/pubs/papers/fwddecay.pdf>
type ExpDecaySample struct {
	alpha         float64
	count         int64
	mutex         sync.Mutex
	reservoirSize int
	t0, t1        time.Time
	values        *expDecaySampleHeap
}

// NewExpDecaySample constructs a new exponentially-decaying sample with the
// given reservoir size and alpha.
func NewExpDecaySample(reservoirSize int, alpha float64) Sample {
	if UseNilMetrics {
		return NilSample{}
	}
	s := &ExpDecaySample{
		alpha:         alpha,
		reservoirSize: reservoirSize,
		t0:            time.Now(),
		values:        newExpDecaySampleHeap(reservoirSize),
	}
	s.t1 = s.t0.Add(rescaleThreshold)
	return s
}

// Clear clears all samples.
func (s *ExpDecaySample) Clear() {
	s.mutex.Lock()
	defer s.mutex.Unlock()
	s.count = 0
	s.t0 = time.Now()
	s.t1 = s.t0.Add(rescaleThreshold)
	s.values.Clear()
}

// Count returns the number of samples recorded, which may exceed the
// reservoir size.
func (s *ExpDecaySample) Count() int64 {
	s.mutex.Lock()
	defer s.mutex.Unlock()
	return s.count
}

// Max returns the maximum value in the sample, which may not be the maximum
// value ever to be part of the sample.
func (s *ExpDecaySample) Max() int64 {
	return SampleMax(s.Values())
}

// Mean returns the mean of the values in the sample.
func (s *ExpDecaySample) Mean() float64 {
	return SampleMean(s.Values())
}

// Min returns the minimum value in the sample, which may not be the minimum
// value ever to be part of the sample.
func (s *ExpDecaySample) Min() int64 {
	return SampleMin(s.Values())
}

// Percentile returns an arbitrary percentile of values in the sample.
func (s *ExpDecaySample) Percentile(p float64) float64 {
	return SamplePercentile(s.Values(), p)
}

// Percentiles returns a slice of arbitrary percentiles of values in the
// sample.
func (s *ExpDecaySample) Percentiles(ps []float64) []float64 {
	return SamplePercentiles(s.Values(), ps)
}

// Size returns the size of the sample, which is at most the reservoir size.
func (s *ExpDecaySample) Size() int {
	s.mutex.Lock()
	defer s.mutex.Unlock()
	return s.values.Size()
}

// Snapshot returns a read-only copy of the sample.
func (s *ExpDecaySample) Snapshot() Sample {
	s.mutex.Lock()
	defer s.mutex.Unlock()
	vals := s.values.Values()
	values := make([]int64, len(vals))
	for i, v := range vals {
		values[i] = v.v
	}
	return &SampleSnapshot{
		count:  s.count,
		values: values,
	}
}

// StdDev returns the standard deviation of the values in the sample.
func (s *ExpDecaySample) StdDev() float64 {
	return SampleStdDev(s.Values())
}

// Sum returns the sum of the values in the sample.
func (s *ExpDecaySample) Sum() int64 {
	return SampleSum(s.Values())
}

// Update samples a new value.
func (s *ExpDecaySample) Update(v int64) {
	s.update(time.Now(), v)
}

// Values returns a copy of the values in the sample.
func (s *ExpDecaySample) Values() []int64 {
	s.mutex.Lock()
	defer s.mutex.Unlock()
	vals := s.values.Values()
	values := make([]int64, len(vals))
	for i, v := range vals {
		values[i] = v.v
	}
	return values
}

// Variance returns the variance of the values in the sample.
func (s *ExpDecaySample) Variance() float64 {
	return SampleVariance(s.Values())
}

// update samples a new value at a particular timestamp.  This is a method all
// its own to facilitate testing.
func (s *ExpDecaySample) update(t time.Time, v int64) {
	s.mutex.Lock()
	defer s.mutex.Unlock()
	s.count++
	if s.values.Size() == s.reservoirSize {
		s.values.Pop()
	}
	s.values.Push(expDecaySample{
		k: math.Exp(t.Sub(s.t0).Seconds()*s.alpha) / rand.Float64(),
		v: v,
	})
	if t.After(s.t1) {
		values := s.values.Values()
		t0 := s.t0
		s.values.Clear()
		s.t0 = t
		s.t1 = s.t0.Add(rescaleThreshold)
		for _, v := range values {
			v.k = v.k * math.Exp(-s.alpha*s.t0.Sub(t0).Seconds())
			s.values.Push(v)
		}
	}
}

// NilSample is a no-op Sample.
type NilSample struct{}

// Clear is a no-op.
func (NilSample) Clear() {}

// Count is a no-op.
func (NilSample) Count() int64 { return 0 }

// Max is a no-op.
func (NilSample) Max() int64 { return 0 }

// Mean is a no-op.
func (NilSample) Mean() float64 { return 0.0 }

// Min is a no-op.
func (NilSample) Min() int64 { return 0 }

// Percentile is a no-op.
func (NilSample) Percentile(p float64) float64 { return 0.0 }

// Percentiles is a no-op.
func (NilSample) Percentiles(ps []float64) []float64 {
	return make([]float64, len(ps))
}

// Size is a no-op.
func (NilSample) Size() int { return 0 }

// Sample is a no-op.
func (NilSample) Snapshot() Sample { return NilSample{} }

// StdDev is a no-op.
func (NilSample) StdDev() float64 { return 0.0 }

// Sum is a no-op.
func (NilSample) Sum() int64 { return 0 }

// Update is a no-op.
func (NilSample) Update(v int64) {}

// Values is a no-op.
func (NilSample) Values() []int64 { return []int64{} }

// Variance is a no-op.
func (NilSample) Variance() float64 { return 0.0 }

// SampleMax returns the maximum value of the slice of int64.
func SampleMax(values []int64) int64 {
	if 0 == len(values) {
		return 0
	}
	var max int64 = math.MinInt64
	for _, v := range values {
		if max < v {
			max = v
		}
	}
	return max
}

// SampleMean returns the mean value of the slice of int64.
func SampleMean(values []int64) float64 {
	if 0 == len(values) {
		return 0.0
	}
	return float64(SampleSum(values)) / float64(len(values))
}

// SampleMin returns the minimum value of the slice of int64.
func SampleMin(values []int64) int64 {
	if 0 == len(values) {
		return 0
	}
	var min int64 = math.MaxInt64
	for _, v := range values {
		if min > v {
			min = v
		}
	}
	return min
}

// SamplePercentiles returns an arbitrary percentile of the slice of int64.
func SamplePercentile(values int64Slice, p float64) float64 {
	return SamplePercentiles(values, []float64{p})[0]
}

// SamplePercentiles returns a slice of arbitrary percentiles of the slice of
// int64.
func SamplePercentiles(values int64Slice, ps []float64) []float64 {
	scores := make([]float64, len(ps))
	size := len(values)
	if size > 0 {
		sort.Sort(values)
		for i, p := range ps {
			pos := p * float64(size+1)
			if pos < 1.0 {
				scores[i] = float64(values[0])
			} else if pos >= float64(size) {
				scores[i] = float64(values[size-1])
			} else {
				lower := float64(values[int(pos)-1])
				upper := float64(values[int(pos)])
				scores[i] = lower + (pos-math.Floor(pos))*(upper-lower)
			}
		}
	}
	return scores
}

// SampleSnapshot is a read-only copy of another Sample.
type SampleSnapshot struct {
	count  int64
	values []int64
}

func NewSampleSnapshot(count int64, values []int64) *SampleSnapshot {
	return &SampleSnapshot{
		count:  count,
		values: values,
	}
}

// Clear panics.
func (*SampleSnapshot) Clear() {
	panic("Clear called on a SampleSnapshot")
}

// Count returns the count of inputs at the time the snapshot was taken.
func (s *SampleSnapshot) Count() int64 { return s.count }

// Max returns the maximal value at the time the snapshot was taken.
func (s *SampleSnapshot) Max() int64 { return SampleMax(s.values) }

// Mean returns the mean value at the time the snapshot was taken.
func (s *SampleSnapshot) Mean() float64 { return SampleMean(s.values) }

// Min returns the minimal value at the time the snapshot was taken.
func (s *SampleSnapshot) Min() int64 { return SampleMin(s.values) }

// Percentile returns an arbitrary percentile of values at the time the
// snapshot was taken.
func (s *SampleSnapshot) Percentile(p float64) float64 {
	return SamplePercentile(s.values, p)
}

// Percentiles returns a slice of arbitrary percentiles of values at the time
// the snapshot was taken.
func (s *SampleSnapshot) Percentiles(ps []float64) []float64 {
	return SamplePercentiles(s.values, ps)
}

// Size returns the size of the sample at the time the snapshot was taken.
func (s *SampleSnapshot) Size() int { return len(s.values) }

// Snapshot returns the snapshot.
func (s *SampleSnapshot) Snapshot() Sample { return s }

// StdDev returns the standard deviation of values at the time the snapshot was
// taken.
func (s *SampleSnapshot) StdDev() float64 { return SampleStdDev(s.values) }

// Sum returns the sum of values at the time the snapshot was taken.
func (s *SampleSnapshot) Sum() int64 { return SampleSum(s.values) }

// Update panics.
func (*SampleSnapshot) Update(int64) {
	panic("Update called on a SampleSnapshot")
}

// Values returns a copy of the values in the sample.
func (s *SampleSnapshot) Values() []int64 {
	values := make([]int64, len(s.values))
	copy(values, s.values)
	return values
}

// Variance returns the variance of values at the time the snapshot was taken.
func (s *SampleSnapshot) Variance() float64 { return SampleVariance(s.values) }

// SampleStdDev returns the standard deviation of the slice of int64.
func SampleStdDev(values []int64) float64 {
	return math.Sqrt(SampleVariance(values))
}

// SampleSum returns the sum of the slice of int64.
func SampleSum(values []int64) int64 {
	var sum int64
	for _, v := range values {
		sum += v
	}
	return sum
}

// SampleVariance returns the variance of the slice of int64.
func SampleVariance(values []int64) float64 {
	if 0 == len(values) {
		return 0.0
	}
	m := SampleMean(values)
	var sum float64
	for _, v := range values {
		d := float64(v) - m
		sum += d * d
	}
	return sum / float64(len(values))
}

// A uniform sample using Vitter's Algorithm R.
//
// <http://www.cs.umd.edu/~samir/498/vitter.pdf>
type UniformSample struct {
	count         int64
	mutex         sync.Mutex
	reservoirSize int
	values        []int64
}

// NewUniformSample constructs a new uniform sample with the given reservoir
// size.
func NewUniformSample(reservoirSize int) Sample {
	if UseNilMetrics {
		return NilSample{}
	}
	return &UniformSample{
		reservoirSize: reservoirSize,
		values:        make([]int64, 0, reservoirSize),
	}
}

// Clear clears all samples.
func (s *UniformSample) Clear() {
	s.mutex.Lock()
	defer s.mutex.Unlock()
	s.count = 0
	s.values = make([]int64, 0, s.reservoirSize)
}

// Count returns the number of samples recorded, which may exceed the
// reservoir size.
func (s *UniformSample) Count() int64 {
	s.mutex.Lock()
	defer s.mutex.Unlock()
	return s.count
}

// Max returns the maximum value in the sample, which may not be the maximum
// value ever to be part of the sample.
func (s *UniformSample) Max() int64 {
	s.mutex.Lock()
	defer s.mutex.Unlock()
	return SampleMax(s.values)
}

// Mean returns the mean of the values in the sample.
func (s *UniformSample) Mean() float64 {
	s.mutex.Lock()
	defer s.mutex.Unlock()
	return SampleMean(s.values)
}

// Min returns the minimum value in the sample, which may not be the minimum
// value ever to be part of the sample.
func (s *UniformSample) Min() int64 {
	s.mutex.Lock()
	defer s.mutex.Unlock()
	return SampleMin(s.values)
}

// Percentile returns an arbitrary percentile of values in the sample.
func (s *UniformSample) Percentile(p float64) float64 {
	s.mutex.Lock()
	defer s.mutex.Unlock()
	return SamplePercentile(s.values, p)
}

// Percentiles returns a slice of arbitrary percentiles of values in the
// sample.
func (s *UniformSample) Percentiles(ps []float64) []float64 {
	s.mutex.Lock()
	defer s.mutex.Unlock()
	return SamplePercentiles(s.values, ps)
}

// Size returns the size of the sample, which is at most the reservoir size.
func (s *UniformSample) Size() int {
	s.mutex.Lock()
	defer s.mutex.Unlock()
	return len(s.values)
}

// Snapshot returns a read-only copy of the sample.
func (s *UniformSample) Snapshot() Sample {
	s.mutex.Lock()
	defer s.mutex.Unlock()
	values := make([]int64, len(s.values))
	copy(values, s.values)
	return &SampleSnapshot{
		count:  s.count,
		values: values,
	}
}

// StdDev returns the standard deviation of the values in the sample.
func (s *UniformSample) StdDev() float64 {
	s.mutex.Lock()
	defer s.mutex.Unlock()
	return SampleStdDev(s.values)
}

// Sum returns the sum of the values in the sample.
func (s *UniformSample) Sum() int64 {
	s.mutex.Lock()
	defer s.mutex.Unlock()
	return SampleSum(s.values)
}

// Update samples a new value.
func (s *UniformSample) Update(v int64) {
	s.mutex.Lock()
	defer s.mutex.Unlock()
	s.count++
	if len(s.values) < s.reservoirSize {
		s.values = append(s.values, v)
	} else {
		r := rand.Int63n(s.count)
		if r < int64(len(s.values)) {
			s.values[int(r)] = v
		}
	}
}

// Values returns a copy of the values in the sample.
func (s *UniformSample) Values() []int64 {
	s.mutex.Lock()
	defer s.mutex.Unlock()
	values := make([]int64, len(s.values))
	copy(values, s.values)
	return values
}

// Variance returns the variance of the values in the sample.
func (s *UniformSample) Variance() float64 {
	s.mutex.Lock()
	defer s.mutex.Unlock()
	return SampleVariance(s.values)
}

// expDecaySample represents an individual sample in a heap.
type expDecaySample struct {
	k float64
	v int64
}

func newExpDecaySampleHeap(reservoirSize int) *expDecaySampleHeap {
	return &expDecaySampleHeap{make([]expDecaySample, 0, reservoirSize)}
}

// expDecaySampleHeap is a min-heap of expDecaySamples.
// The internal implementation is copied from the standard library's container/heap
type expDecaySampleHeap struct {
	s []expDecaySample
}

func (h *expDecaySampleHeap) Clear() {
	h.s = h.s[:0]
}

func (h *expDecaySampleHeap) Push(s expDecaySample) {
	n := len(h.s)
	h.s = h.s[0 : n+1]
	h.s[n] = s
	h.up(n)
}

func (h *expDecaySampleHeap) Pop() expDecaySample {
	n := len(h.s) - 1
	h.s[0], h.s[n] = h.s[n], h.s[0]
	h.down(0, n)

	n = len(h.s)
	s := h.s[n-1]
	h.s = h.s[0 : n-1]
	return s
}

func (h *expDecaySampleHeap) Size() int {
	return len(h.s)
}

func (h *expDecaySampleHeap) Values() []expDecaySample {
	return h.s
}

func (h *expDecaySampleHeap) up(j int) {
	for {
		i := (j - 1) / 2 // parent
		if i == j || !(h.s[j].k < h.s[i].k) {
			break
		}
		h.s[i], h.s[j] = h.s[j], h.s[i]
		j = i
	}
}

func (h *expDecaySampleHeap) down(i, n int) {
	for {
		j1 := 2*i + 1
		if j1 >= n || j1 < 0 { // j1 < 0 after int overflow
			break
		}
		j := j1 // left child
		if j2 := j1 + 1; j2 < n && !(h.s[j1].k < h.s[j2].k) {
			j = j2 // = 2*i + 2  // right child
		}
		if !(h.s[j].k < h.s[i].k) {
			break
		}
		h.s[i], h.s[j] = h.s[j], h.s[i]
		i = j
	}
}

type int64Slice []int64

func (p int64Slice) Len() int           { return len(p) }
func (p int64Slice) Less(i, j int) bool { return p[i] < p[j] }
func (p int64Slice) Swap(i, j int)      { p[i], p[j] = p[j], p[i] }
