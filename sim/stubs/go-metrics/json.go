package metrics

import (
	"encoding/json"
	"io"
	"time"
)

// MarshalJSON returns a byte slice containing a JSON representation of all
// the metrics in the Registry.
func (r *StandardRegistry) MarshalJSON() ([]byte, error) {
	return json.Marshal(r.GetAll())
}

// WriteJSON writes metrics from the given registry  periodically to the
// specified io.Writer as JSON.
func WriteJSON(r Registry, d time.Duration, w io.Writer) {
	for _ = range time.Tick(d) {
		WriteJSONOnce(r, w)
	}
}

// WriteJSONOnce writes metrics from the given registry to the specified
// io.Writer as JSON.
func WriteJSONOnce(r Registry, w io.Writer) {
	json.NewEncoder(w).Encode(r)
}

func (p *PrefixedRegistry) MarshalJSON() ([]byte, error) {
	return json.Marshal(p.GetAll())
}
