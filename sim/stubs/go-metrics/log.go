package metrics

import (
	"time"
)

type Logger interface {
	Printf(format string, v ...interface{})
}

// Log outputs each metric in the given registry periodically using the given logger.
func Log(r Registry, freq time.Duration, l Logger) {
	LogScaled(r, freq, time.Nanosecond, l)
}

// LogOnCue outputs each metric in the given registry on demand through the channel
// using the given logger
func LogOnCue(r Registry, ch chan interface{}, l Logger) {
	LogScaledOnCue(r, ch, time.Nanosecond, l)
}

// LogScaled outputs each metric in the given registry periodically using the given
// logger. Print timings in `scale` units (eg time.Millisecond) rather than nanos.
func LogScaled(r Registry, freq time.Duration, scale time.Duration, l Logger) {
	ch := make(chan interface{})
	go func(channel chan interface{}) {
		for _ = range time.Tick(freq) {
			channel <- struct{}{}
		}
	}(ch)
	LogScaledOnCue(r, ch, scale, l)
}

// LogScaledOnCue outputs each metric in the given registry on demand through the channel
// using the given logger. Print timings in `scale` units (eg time.Millisecond) rather
// than nanos.
func LogScaledOnCue(r Registry, ch chan interface{}, scale time.Duration, l Logger) {
	du := float64(scale)
	duSuffix := scale.String()[1:]

	for _ = range ch {
		r.Each(func(name string, i interface{}) {
			switch metric := i.(type) {
			case Counter:
				l.Printf("counter %s\n", name)
				l.Printf("  count:       %9d\n", metric.Count())
			case Gauge:
				l.Printf("gauge %s\n", name)
				l.Printf("  value:       %9d\n", metric.Value())
			case GaugeFloat64:
				l.Printf("gauge %s\n", name)
				l.Printf("  value:       %f\n", metric.Value())
			case Healthcheck:
				metric.Check()
				l.Printf("healthcheck %s\n", name)
				l.Printf("  error:       %v\n", metric.Error())
			case Histogram:
				h := metric.Snapshot()
				ps := h.Percentiles([]float64{0.5, 0.75, 0.95, 0.99, 0.999})
				l.Printf("histogram %s\n", name)
				l.Printf("  count:       %9d\n", h.Count())
				l.Printf("  min:         %9d\n", h.Min())
				l.Printf("  max:         %9d\n", h.Max())
				l.Printf("  mean:        %12.2f\n", h.Mean())
				l.Printf("  stddev:      %12.2f\n", h.StdDev())
				l.Printf("  median:      %12.2f\n", ps[0])
				l.Printf("  75%%:         %12.2f\n", ps[1])
				l.Printf("  95%%:         %12.2f\n", ps[2])
				l.Printf("  99%%:         %12.2f\n", ps[3])
				l.Printf("  99.9%%:       %12.2f\n", ps[4])
			case Meter:
				m := metric.Snapshot()
				l.Printf("meter %s\n", name)
				l.Printf("  count:       %9d\n", m.Count())
				l.Printf("  1-min rate:  %12.2f\n", m.Rate1())
				l.Printf("  5-min rate:  %12.2f\n", m.Rate5())
				l.Printf("  15-min rate: %12.2f\n", m.Rate15())
				l.Printf("  mean rate:   %12.2f\n", m.RateMean())
			case Timer:
				t := metric.Snapshot()
				ps := t.Percentiles([]float64{0.5, 0.75, 0.95, 0.99, 0.999})
				l.Printf("timer %s\n", name)
				l.Printf("  count:       %9d\n", t.Count())
				l.Printf("  min:         %12.2f%s\n", float64(t.Min())/du, duSuffix)
				l.Printf("  max:         %12.2f%s\n", float64(t.Max())/du, duSuffix)
				l.Printf("  mean:        %12.2f%s\n", t.Mean()/du, duSuffix)
				l.Printf("  stddev:      %12.2f%s\n", t.StdDev()/du, duSuffix)
				l.Printf("  median:      %12.2f%s\n", ps[0]/du, duSuffix)
				l.Printf("  75%%:         %12.2f%s\n", ps[1]/du, duSuffix)
				l.Printf("  95%%:         %12.2f%s\n", ps[2]/du, duSuffix)
				l.Printf("  99%%:         %12.2f%s\n", ps[3]/du, duSuffix)
				l.Printf("  99.9%%:       %12.2f%s\n", ps[4]/du, duSuffix)
				l.Printf("  1-min rate:  %12.2f\n", t.Rate1())
				l.Printf("  5-min rate:  %12.2f\n", t.Rate5())
				l.Printf("  15-min rate: %12.2f\n", t.Rate15())
				l.Printf("  mean rate:   %12.2f\n", t.RateMean())
			}
		})
	}
}
