package metrics

import (
	"runtime/debug"
	"sync"
	"time"
)

var (
	debugMetrics struct {
		GCStats struct {
			LastGC Gauge
			NumGC  Gauge
			Pause  Histogram
			//PauseQuantiles Histogram
			PauseTotal Gauge
		}
		ReadGCStats Timer
	}
	gcStats                  debug.GCStats
	registerDebugMetricsOnce = sync.Once{}
)

// Capture new values for the Go garbage collector statistics exported in
// debug.GCStats.  This is designed to be called as a goroutine.
func CaptureDebugGCStats(r Registry, d time.Duration) {
	for _ = range time.Tick(d) {
		CaptureDebugGCStatsOnce(r)
	}
}

// Capture new values for the Go garbage collector statistics exported in
// debug.GCStats.  This is designed to be called in a background goroutine.
// Giving a registry which has not been given to RegisterDebugGCStats will
// panic.
//
// Be careful (but much less so) with this because debug.ReadGCStats calls
// the C function runtime·lock(runtime·mheap) which, while not a stop-the-world
// operation, isn't something you want to be doing all the time.
func CaptureDebugGCStatsOnce(r Registry) {
	lastGC := gcStats.LastGC
	t := time.Now()
	debug.ReadGCStats(&gcStats)
	debugMetrics.ReadGCStats.UpdateSince(t)

	debugMetrics.GCStats.LastGC.Update(int64(gcStats.LastGC.UnixNano()))
	debugMetrics.GCStats.NumGC.Update(int64(gcStats.NumGC))
	if lastGC != gcStats.LastGC && 0 < len(gcStats.Pause) {
		debugMetrics.GCStats.Pause.Update(int64(gcStats.Pause[0]))
	}
	//debugMetrics.GCStats.PauseQuantiles.Update(gcStats.PauseQuantiles)
	debugMetrics.GCStats.PauseTotal.Update(int64(gcStats.PauseTotal))
}

// Register metrics for the Go garbage collector statistics exported in
// debug.GCStats.  The metrics are named by their fully-qualified Go symbols,
// i.e. debug.GCStats.PauseTotal.
func RegisterDebugGCStats(r Registry) {
	registerDebugMetricsOnce.Do(func() {
		debugMetrics.GCStats.LastGC = NewGauge()
		debugMetrics.GCStats.NumGC = NewGauge()
		debugMetrics.GCStats.Pause = NewHistogram(NewExpDecaySample(1028, 0.015))
		//debugMetrics.GCStats.PauseQuantiles = NewHistogram(NewExpDecaySample(1028, 0.015))
		debugMetrics.GCStats.PauseTotal = NewGauge()
		debugMetrics.ReadGCStats = NewTimer()

		r.Register("debug.GCStats.LastGC", debugMetrics.GCStats.LastGC)
		r.Register("debug.GCStats.NumGC", debugMetrics.GCStats.NumGC)
		r.Register("debug.GCStats.Pause", debugMetrics.GCStats.Pause)
		//r.Register("debug.GCStats.PauseQuantiles", debugMetrics.GCStats.PauseQuantiles)
		r.Register("debug.GCStats.PauseTotal", debugMetrics.GCStats.PauseTotal)
		r.Register("debug.ReadGCStats", debugMetrics.ReadGCStats)
	})
}

// Allocate an initial slice for gcStats.Pause to avoid allocations during
// normal operation.
func init() {
	gcStats.Pause = make([]time.Duration, 11)
}
