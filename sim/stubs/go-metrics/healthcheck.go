package metrics

// Healthchecks hold an error value describing an arbitrary up/down status.
type Healthcheck interface {
	Check()
	Error() error
	Healthy()
	Unhealthy(error)
}

// NewHealthcheck constructs a new Healthcheck which will use the given
// function to update its status.
func NewHealthcheck(f func(Healthcheck)) Healthcheck {
	if UseNilMetrics {
		return NilHealthcheck{}
	}
	return &StandardHealthcheck{nil, f}
}

// NilHealthcheck is a no-op.
type NilHealthcheck struct{}

// Check is a no-op.
func (NilHealthcheck) Check() {}

// Error is a no-op.
func (NilHealthcheck) Error() error { return nil }

// Healthy is a no-op.
func (NilHealthcheck) Healthy() {}

// Unhealthy is a no-op.
func (NilHealthcheck) Unhealthy(error) {}

// StandardHealthcheck is the standard implementation of a Healthcheck and
// stores the status and a function to call to update the status.
type StandardHealthcheck struct {
	err error
	f   func(Healthcheck)
}

// Check runs the healthcheck function to update the healthcheck's status.
func (h *StandardHealthcheck) Check() {
	h.f(h)
}

// Error returns the healthcheck's status, which will be nil if it is healthy.
func (h *StandardHealthcheck) Error() error {
	return h.err
}

// Healthy marks the healthcheck as healthy.
func (h *StandardHealthcheck) Healthy() {
	h.err = nil
}

// Unhealthy marks the healthcheck as unhealthy.  The error is stored and
// may be retrieved by the Error method.
func (h *StandardHealthcheck) Unhealthy(err error) {
	h.err = err
}
