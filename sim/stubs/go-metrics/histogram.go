package metrics

// Histograms calculate distribution statistics from a series of int64 values.
type Histogram interface {
	Clear()
	Count() int64
	Max() int64
	Mean() float64
	Min() int64
	Percentile(float64) float64
	Percentiles([]float64) []float64
	Sample() Sample
	Snapshot() Histogram
	StdDev() float64
	Sum() int64
	Update(int64)
	Variance() float64
}

// GetOrRegisterHistogram returns an existing Histogram or constructs and
// registers a new StandardHistogram.
func GetOrRegisterHistogram(name string, r Registry, s Sample) Histogram {
	if nil == r {
		r = DefaultRegistry
	}
	return r.GetOrRegister(name, func() Histogram { return NewHistogram(s) }).(Histogram)
}

// NewHistogram constructs a new StandardHistogram from a Sample.
func NewHistogram(s Sample) Histogram {
	if UseNilMetrics {
		return NilHistogram{}
	}
	return &StandardHistogram{sample: s}
}

// NewRegisteredHistogram constructs and registers a new StandardHistogram from
// a Sample.
func NewRegisteredHistogram(name string, r Registry, s Sample) Histogram {
	c := NewHistogram(s)
	if nil == r {
		r = DefaultRegistry
	}
	r.Register(name, c)
	return c
}

// HistogramSnapshot is a read-only copy of another Histogram.
type HistogramSnapshot struct {
	sample *SampleSnapshot
}

// Clear panics.
func (*HistogramSnapshot) Clear() {
	panic("Clear called on a HistogramSnapshot")
}

// Count returns the number of samples recorded at the time the snapshot was
// taken.
func (h *HistogramSnapshot) Count() int64 { return h.sample.Count() }

// Max returns the maximum value in the sample at the time the snapshot was
// taken.
func (h *HistogramSnapshot) Max() int64 { return h.sample.Max() }

// Mean returns the mean of the values in the sample at the time the snapshot
// was taken.
func (h *HistogramSnapshot) Mean() float64 { return h.sample.Mean() }

// Min returns the minimum value in the sample at the time the snapshot was
// taken.
func (h *HistogramSnapshot) Min() int64 { return h.sample.Min() }

// Percentile returns an arbitrary percentile of values in the sample at the
// time the snapshot was taken.
func (h *HistogramSnapshot) Percentile(p float64) float64 {
	return h.sample.Percentile(p)
}

// Percentiles returns a slice of arbitrary percentiles of values in the sample
// at the time the snapshot was taken.
func (h *HistogramSnapshot) Percentiles(ps []float64) []float64 {
	return h.sample.Percentiles(ps)
}

// Sample returns the Sample underlying the histogram.
func (h *HistogramSnapshot) Sample() Sample { return h.sample }

// Snapshot returns the snapshot.
func (h *HistogramSnapshot) Snapshot() Histogram { return h }

// StdDev returns the standard deviation of the values in the sample at the
// time the snapshot was taken.
func (h *HistogramSnapshot) StdDev() float64 { return h.sample.StdDev() }

// Sum returns the sum in the sample at the time the snapshot was taken.
func (h *HistogramSnapshot) Sum() int64 { return h.sample.Sum() }

// Update panics.
func (*HistogramSnapshot) Update(int64) {
	panic("Update called on a HistogramSnapshot")
}

// Variance returns the variance of inputs at the time the snapshot was taken.
func (h *HistogramSnapshot) Variance() float64 { return h.sample.Variance() }

// NilHistogram is a no-op Histogram.
type NilHistogram struct{}

// Clear is a no-op.
func (NilHistogram) Clear() {}

// Count is a no-op.
func (NilHistogram) Count() int64 { return 0 }

// Max is a no-op.
func (NilHistogram) Max() int64 { return 0 }

// Mean is a no-op.
func (NilHistogram) Mean() float64 { return 0.0 }

// Min is a no-op.
func (NilHistogram) Min() int64 { return 0 }

// Percentile is a no-op.
func (NilHistogram) Percentile(p float64) float64 { return 0.0 }

// Percentiles is a no-op.
func (NilHistogram) Percentiles(ps []float64) []float64 {
	return make([]float64, len(ps))
}

// Sample is a no-op.
func (NilHistogram) Sample() Sample { return NilSample{} }

// Snapshot is a no-op.
func (NilHistogram) Snapshot() Histogram { return NilHistogram{} }

// StdDev is a no-op.
func (NilHistogram) StdDev() float64 { return 0.0 }

// Sum is a no-op.
func (NilHistogram) Sum() int64 { return 0 }

// Update is a no-op.
func (NilHistogram) Update(v int64) {}

// Variance is a no-op.
func (NilHistogram) Variance() float64 { return 0.0 }

// StandardHistogram is the standard implementation of a Histogram and uses a
// Sample to bound its memory use.
type StandardHistogram struct {
	sample Sample
}

// Clear clears the histogram and its sample.
func (h *StandardHistogram) Clear() { h.sample.Clear() }

// Count returns the number of samples recorded since the histogram was last
// cleared.
func (h *StandardHistogram) Count() int64 { return h.sample.Count() }

// Max returns the maximum value in the sample.
func (h *StandardHistogram) Max() int64 { return h.sample.Max() }

// Mean returns the mean of the values in the sample.
func (h *StandardHistogram) Mean() float64 { return h.sample.Mean() }

// Min returns the minimum value in the sample.
func (h *StandardHistogram) Min() int64 { return h.sample.Min() }

// Percentile returns an arbitrary percentile of the values in the sample.
func (h *StandardHistogram) Percentile(p float64) float64 {
	return h.sample.Percentile(p)
}

// Percentiles returns a slice of arbitrary percentiles of the values in the
// sample.
func (h *StandardHistogram) Percentiles(ps []float64) []float64 {
	return h.sample.Percentiles(ps)
}

// Sample returns the Sample underlying the histogram.
func (h *StandardHistogram) Sample() Sample { return h.sample }

// Snapshot returns a read-only copy of the histogram.
func (h *StandardHistogram) Snapshot() Histogram {
	return &HistogramSnapshot{sample: h.sample.Snapshot().(*SampleSnapshot)}
}

// StdDev returns the standard deviation of the values in the sample.
func (h *StandardHistogram) StdDev() float64 { return h.sample.StdDev() }

// Sum returns the sum in the sample.
func (h *StandardHistogram) Sum() int64 { return h.sample.Sum() }

// Update samples a new value.
func (h *StandardHistogram) Update(v int64) { h.sample.Update(v) }

// Variance returns the variance of the values in the sample.
func (h *StandardHistogram) Variance() float64 { return h.sample.Variance() }
