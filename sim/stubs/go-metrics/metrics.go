// Go port of Coda Hale's Metrics library
//
// <https://github.com/rcrowley/go-metrics>
//
// Coda Hale's original work: <https://github.com/codahale/metrics>
package metrics

// UseNilMetrics is checked by the constructor functions for all of the
// standard metrics.  If it is true, the metric returned is a stub.
//
// This global kill-switch helps quantify the observer effect and makes
// for less cluttered pprof profiles.
var UseNilMetrics bool = false
