package metrics

import (
	"math"
	"sync"
	"sync/atomic"
	"time"
)

// Meters count events to produce exponentially-weighted moving average rates
// at one-, five-, and fifteen-minutes and a mean rate.
type Meter interface {
	Count() int64
	Mark(int64)
	Rate1() float64
	Rate5() float64
	Rate15() float64
	RateMean() float64
	Snapshot() Meter
	Stop()
}

// GetOrRegisterMeter returns an existing Meter or constructs and registers a
// new StandardMeter.
// Be sure to unregister the meter from the registry once it is of no use to
// allow for garbage collection.
func GetOrRegisterMeter(name string, r Registry) Meter {
	if nil == r {
		r = DefaultRegistry
	}
	return r.GetOrRegister(name, NewMeter).(Meter)
}

// NewMeter constructs a new StandardMeter and launches a goroutine.
// Be sure to call Stop() once the meter is of no use to allow for garbage collection.
func NewMeter() Meter {
	if UseNilMetrics {
		return NilMeter{}
	}
	m := newStandardMeter()
	arbiter.Lock()
	defer arbiter.Unlock()
	arbiter.meters[m] = struct{}{}
	if !arbiter.started {
		arbiter.started = true
		arbiter.ticker = time.NewTicker(5e9)
		go arbiter.tick()
	}
	return m
}

// NewMeter constructs and registers a new StandardMeter and launches a
// goroutine.
// Be sure to unregister the meter from the registry once it is of no use to
// allow for garbage collection.
func NewRegisteredMeter(name string, r Registry) Meter {
	c := NewMeter()
	if nil == r {
		r = DefaultRegistry
	}
	r.Register(name, c)
	return c
}

// MeterSnapshot is a read-only copy of another Meter.
type MeterSnapshot struct {
	count                          int64
	rate1, rate5, rate15, rateMean uint64
}

// Count returns the count of events at the time the snapshot was taken.
func (m *MeterSnapshot) Count() int64 { return m.count }

// Mark panics.
func (*MeterSnapshot) Mark(n int64) {
	panic("Mark called on a MeterSnapshot")
}

// Rate1 returns the one-minute moving average rate of events per second at the
// time the snapshot was taken.
func (m *MeterSnapshot) Rate1() float64 { return math.Float64frombits(m.rate1) }

// Rate5 returns the five-minute moving average rate of events per second at
// the time the snapshot was taken.
func (m *MeterSnapshot) Rate5() float64 { return math.Float64frombits(m.rate5) }

// Rate15 returns the fifteen-minute moving average rate of events per second
// at the time the snapshot was taken.
func (m *MeterSnapshot) Rate15() float64 { return math.Float64frombits(m.rate15) }

// RateMean returns the meter's mean rate of events per second at the time the
// snapshot was taken.
func (m *MeterSnapshot) RateMean() float64 { return math.Float64frombits(m.rateMean) }

// Snapshot returns the snapshot.
func (m *MeterSnapshot) Snapshot() Meter { return m }

// Stop is a no-op.
func (m *MeterSnapshot) Stop() {}

// NilMeter is a no-op Meter.
type NilMeter struct{}

// Count is a no-op.
func (NilMeter) Count() int64 { return 0 }

// Mark is a no-op.
func (NilMeter) Mark(n int64) {}

// Rate1 is a no-op.
func (NilMeter) Rate1() float64 { return 0.0 }

// Rate5 is a no-op.
func (NilMeter) Rate5() float64 { return 0.0 }

// Rate15is a no-op.
func (NilMeter) Rate15() float64 { return 0.0 }

// RateMean is a no-op.
func (NilMeter) RateMean() float64 { return 0.0 }

// Snapshot is a no-op.
func (NilMeter) Snapshot() Meter { return NilMeter{} }

// Stop is a no-op.
func (NilMeter) Stop() {}

// StandardMeter is the standard implementation of a Meter.
type StandardMeter struct {
	snapshot    *MeterSnapshot
	a1, a5, a15 EWMA
	startTime   time.Time
	stopped     uint32
}

func newStandardMeter() *StandardMeter {
	return &StandardMeter{
		snapshot:  &MeterSnapshot{},
		a1:        NewEWMA1(),
		a5:        NewEWMA5(),
		a15:       NewEWMA15(),
		startTime: time.Now(),
	}
}

// Stop stops the meter, Mark() will be a no-op if you use it after being stopped.
func (m *StandardMeter) Stop() {
	if atomic.CompareAndSwapUint32(&m.stopped, 0, 1) {
		arbiter.Lock()
		delete(arbiter.meters, m)
		arbiter.Unlock()
	}
}

// Count returns the number of events recorded.
func (m *StandardMeter) Count() int64 {
	return atomic.LoadInt64(&m.snapshot.count)
}

// Mark records the occurance of n events.
func (m *StandardMeter) Mark(n int64) {
	if atomic.LoadUint32(&m.stopped) == 1 {
		return
	}

	atomic.AddInt64(&m.snapshot.count, n)

	m.a1.Update(n)
	m.a5.Update(n)
	m.a15.Update(n)
	m.updateSnapshot()
}

// Rate1 returns the one-minute moving average rate of events per second.
func (m *StandardMeter) Rate1() float64 {
	return math.Float64frombits(atomic.LoadUint64(&m.snapshot.rate1))
}

// Rate5 returns the five-minute moving average rate of events per second.
func (m *StandardMeter) Rate5() float64 {
	return math.Float64frombits(atomic.LoadUint64(&m.snapshot.rate5))
}

// Rate15 returns the fifteen-minute moving average rate of events per second.
func (m *StandardMeter) Rate15() float64 {
	return math.Float64frombits(atomic.LoadUint64(&m.snapshot.rate15))
}

// RateMean returns the meter's mean rate of events per second.
func (m *StandardMeter) RateMean() float64 {
	return math.Float64frombits(atomic.LoadUint64(&m.snapshot.rateMean))
}

// Snapshot returns a read-only copy of the meter.
func (m *StandardMeter) Snapshot() Meter {
	copiedSnapshot := MeterSnapshot{
		count:    atomic.LoadInt64(&m.snapshot.count),
		rate1:    atomic.LoadUint64(&m.snapshot.rate1),
		rate5:    atomic.LoadUint64(&m.snapshot.rate5),
		rate15:   atomic.LoadUint64(&m.snapshot.rate15),
		rateMean: atomic.LoadUint64(&m.snapshot.rateMean),
	}
	return &copiedSnapshot
}

func (m *StandardMeter) updateSnapshot() {
	rate1 := math.Float64bits(m.a1.Rate())
	rate5 := math.Float64bits(m.a5.Rate())
	rate15 := math.Float64bits(m.a15.Rate())
	rateMean := math.Float64bits(float64(m.Count()) / time.Since(m.startTime).Seconds())

	atomic.StoreUint64(&m.snapshot.rate1, rate1)
	atomic.StoreUint64(&m.snapshot.rate5, rate5)
	atomic.StoreUint64(&m.snapshot.rate15, rate15)
	atomic.StoreUint64(&m.snapshot.rateMean, rateMean)
}

func (m *StandardMeter) tick() {
	m.a1.Tick()
	m.a5.Tick()
	m.a15.Tick()
	m.updateSnapshot()
}

// meterArbiter ticks meters every 5s from a single goroutine.
// meters are references in a set for future stopping.
type meterArbiter struct {
	sync.RWMutex
	started bool
	meters  map[*StandardMeter]struct{}
	ticker  *time.Ticker
}

var arbiter = meterArbiter{meters: make(map[*StandardMeter]struct{})}

// Ticks meters on the scheduled interval
func (ma *meterArbiter) tick() {
	for {
		select {
		case <-ma.ticker.C:
			ma.tickMeters()
		}
	}
}

func (ma *meterArbiter) tickMeters() {
	ma.RLock()
	defer ma.RUnlock()
	for meter := range ma.meters {
		meter.tick()
	}
}
