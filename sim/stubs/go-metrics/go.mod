module github.com/rcrowley/go-metrics

go 1.13
