// +build cgo
// +build !appengine

package metrics

import "runtime"

func numCgoCall() int64 {
	return runtime.NumCgoCall()
}
