// +build go1.5

package metrics

import "runtime"

func gcCPUFraction(memStats *runtime.MemStats) float64 {
	return memStats.GCCPUFraction
}
