package metrics

import (
	"fmt"
	"reflect"
	"strings"
	"sync"
)

// DuplicateMetric is the error returned by Registry.Register when a metric
// already exists.  If you mean to Register that metric you must first
// Unregister the existing metric.
type DuplicateMetric string

func (err DuplicateMetric) Error() string {
	return fmt.Sprintf("duplicate metric: %s", string(err))
}

// A Registry holds references to a set of metrics by name and can iterate
// over them, calling callback functions provided by the user.
//
// This is an interface so as to encourage other structs to implement
// the Registry API as appropriate.
type Registry interface {

	// Call the given function for each registered metric.
	Each(func(string, interface{}))

	// Get the metric by the given name or nil if none is registered.
	Get(string) interface{}

	// GetAll metrics in the Registry.
	GetAll() map[string]map[string]interface{}

	// Gets an existing metric or registers the given one.
	// The interface can be the metric to register if not found in registry,
	// or a function returning the metric for lazy instantiation.
	GetOrRegister(string, interface{}) interface{}

	// Register the given metric under the given name.
	Register(string, interface{}) error

	// Run all registered healthchecks.
	RunHealthchecks()

	// Unregister the metric with the given name.
	Unregister(string)

	// Unregister all metrics.  (Mostly for testing.)
	UnregisterAll()
}

// The standard implementation of a Registry is a mutex-protected map
// of names to metrics.
type StandardRegistry struct {
	metrics map[string]interface{}
	mutex   sync.RWMutex
}

// Create a new registry.
func NewRegistry() Registry {
	return &StandardRegistry{metrics: make(map[string]interface{})}
}

// Call the given function for each registered metric.
func (r *StandardRegistry) Each(f func(string, interface{})) {
	metrics := r.registered()
	for i := range metrics {
		kv := &metrics[i]
		f(kv.name, kv.value)
	}
}

// Get the metric by the given name or nil if none is registered.
func (r *StandardRegistry) Get(name string) interface{} {
	r.mutex.RLock()
	defer r.mutex.RUnlock()
	return r.metrics[name]
}

// Gets an existing metric or creates and registers a new one. Threadsafe
// alternative to calling Get and Register on failure.
// The interface can be the metric to register if not found in registry,
// or a function returning the metric for lazy instantiation.
func (r *StandardRegistry) GetOrRegister(name string, i interface{}) interface{} {
	// access the read lock first which should be re-entrant
	r.mutex.RLock()
	metric, ok := r.metrics[name]
	r.mutex.RUnlock()
	if ok {
		return metric
	}

	// only take the write lock if we'll be modifying the metrics map
	r.mutex.Lock()
	defer r.mutex.Unlock()
	if metric, ok := r.metrics[name]; ok {
		return metric
	}
	if v := reflect.ValueOf(i); v.Kind() == reflect.Func {
		i = v.Call(nil)[0].Interface()
	}
	r.register(name, i)
	return i
}

// Register the given metric under the given name.  Returns a DuplicateMetric
// if a metric by the given name is already registered.
func (r *StandardRegistry) Register(name string, i interface{}) error {
	r.mutex.Lock()
	defer r.mutex.Unlock()
	return r.register(name, i)
}

// Run all registered healthchecks.
func (r *StandardRegistry) RunHealthchecks() {
	r.mutex.RLock()
	defer r.mutex.RUnlock()
	for _, i := range r.metrics {
		if h, ok := i.(Healthcheck); ok {
			h.Check()
		}
	}
}

// GetAll metrics in the Registry
func (r *StandardRegistry) GetAll() map[string]map[string]interface{} {
	data := make(map[string]map[string]interface{})
	r.Each(func(name string, i interface{}) {
		values := make(map[string]interface{})
		switch metric := i.(type) {
		case Counter:
			values["count"] = metric.Count()
		case Gauge:
			values["value"] = metric.Value()
		case GaugeFloat64:
			values["value"] = metric.Value()
		case Healthcheck:
			values["error"] = nil
			metric.Check()
			if err := metric.Error(); nil != err {
				values["error"] = metric.Error().Error()
			}
		case Histogram:
			h := metric.Snapshot()
			ps := h.Percentiles([]float64{0.5, 0.75, 0.95, 0.99, 0.999})
			values["count"] = h.Count()
			values["min"] = h.Min()
			values["max"] = h.Max()
			values["mean"] = h.Mean()
			values["stddev"] = h.StdDev()
			values["median"] = ps[0]
			values["75%"] = ps[1]
			values["95%"] = ps[2]
			values["99%"] = ps[3]
			values["99.9%"] = ps[4]
		case Meter:
			m := metric.Snapshot()
			values["count"] = m.Count()
			values["1m.rate"] = m.Rate1()
			values["5m.rate"] = m.Rate5()
			values["15m.rate"] = m.Rate15()
			values["mean.rate"] = m.RateMean()
		case Timer:
			t := metric.Snapshot()
			ps := t.Percentiles([]float64{0.5, 0.75, 0.95, 0.99, 0.999})
			values["count"] = t.Count()
			values["min"] = t.Min()
			values["max"] = t.Max()
			values["mean"] = t.Mean()
			values["stddev"] = t.StdDev()
			values["median"] = ps[0]
			values["75%"] = ps[1]
			values["95%"] = ps[2]
			values["99%"] = ps[3]
			values["99.9%"] = ps[4]
			values["1m.rate"] = t.Rate1()
			values["5m.rate"] = t.Rate5()
			values["15m.rate"] = t.Rate15()
			values["mean.rate"] = t.RateMean()
		}
		data[name] = values
	})
	return data
}

// Unregister the metric with the given name.
func (r *StandardRegistry) Unregister(name string) {
	r.mutex.Lock()
	defer r.mutex.Unlock()
	r.stop(name)
	delete(r.metrics, name)
}

// Unregister all metrics.  (Mostly for testing.)
func (r *StandardRegistry) UnregisterAll() {
	r.mutex.Lock()
	defer r.mutex.Unlock()
	for name, _ := range r.metrics {
		r.stop(name)
		delete(r.metrics, name)
	}
}

func (r *StandardRegistry) register(name string, i interface{}) error {
	if _, ok := r.metrics[name]; ok {
		return DuplicateMetric(name)
	}
	switch i.(type) {
	case Counter, Gauge, GaugeFloat64, Healthcheck, Histogram, Meter, Timer:
		r.metrics[name] = i
	}
	return nil
}

type metricKV struct {
	name  string
	value interface{}
}

func (r *StandardRegistry) registered() []metricKV {
	r.mutex.RLock()
	defer r.mutex.RUnlock()
	metrics := make([]metricKV, 0, len(r.metrics))
	for name, i := range r.metrics {
		metrics = append(metrics, metricKV{
			name:  name,
			value: i,
		})
	}
	return metrics
}

func (r *StandardRegistry) stop(name string) {
	if i, ok := r.metrics[name]; ok {
		if s, ok := i.(Stoppable); ok {
			s.Stop()
		}
	}
}

// Stoppable defines the metrics which has to be stopped.
type Stoppable interface {
	Stop()
}

type PrefixedRegistry struct {
	underlying Registry
	prefix     string
}

func NewPrefixedRegistry(prefix string) Registry {
	return &PrefixedRegistry{
		underlying: NewRegistry(),
		prefix:     prefix,
	}
}

func NewPrefixedChildRegistry(parent Registry, prefix string) Registry {
	return &PrefixedRegistry{
		underlying: parent,
		prefix:     prefix,
	}
}

// Call the given function for each registered metric.
func (r *PrefixedRegistry) Each(fn func(string, interface{})) {
	wrappedFn := func(prefix string) func(string, interface{}) {
		return func(name string, iface interface{}) {
			if strings.HasPrefix(name, prefix) {
				fn(name, iface)
			} else {
				return
			}
		}
	}

	baseRegistry, prefix := findPrefix(r, "")
	baseRegistry.Each(wrappedFn(prefix))
}

func findPrefix(registry Registry, prefix string) (Registry, string) {
	switch r := registry.(type) {
	case *PrefixedRegistry:
		return findPrefix(r.underlying, r.prefix+prefix)
	case *StandardRegistry:
		return r, prefix
	}
	return nil, ""
}

// Get the metric by the given name or nil if none is registered.
func (r *PrefixedRegistry) Get(name string) interface{} {
	realName := r.prefix + name
	return r.underlying.Get(realName)
}

// Gets an existing metric or registers the given one.
// The interface can be the metric to register if not found in registry,
// or a function returning the metric for lazy instantiation.
func (r *PrefixedRegistry) GetOrRegister(name string, metric interface{}) interface{} {
	realName := r.prefix + name
	return r.underlying.GetOrRegister(realName, metric)
}

// Register the given metric under the given name. The name will be prefixed.
func (r *PrefixedRegistry) Register(name string, metric interface{}) error {
	realName := r.prefix + name
	return r.underlying.Register(realName, metric)
}

// Run all registered healthchecks.
func (r *PrefixedRegistry) RunHealthchecks() {
	r.underlying.RunHealthchecks()
}

// GetAll metrics in the Registry
func (r *PrefixedRegistry) GetAll() map[string]map[string]interface{} {
	return r.underlying.GetAll()
}

// Unregister the metric with the given name. The name will be prefixed.
func (r *PrefixedRegistry) Unregister(name string) {
	realName := r.prefix + name
	r.underlying.Unregister(realName)
}

// Unregister all metrics.  (Mostly for testing.)
func (r *PrefixedRegistry) UnregisterAll() {
	r.underlying.UnregisterAll()
}

var DefaultRegistry Registry = NewRegistry()

// Call the given function for each registered metric.
func Each(f func(string, interface{})) {
	DefaultRegistry.Each(f)
}

// Get the metric by the given name or nil if none is registered.
func Get(name string) interface{} {
	return DefaultRegistry.Get(name)
}

// Gets an existing metric or creates and registers a new one. Threadsafe
// alternative to calling Get and Register on failure.
func GetOrRegister(name string, i interface{}) interface{} {
	return DefaultRegistry.GetOrRegister(name, i)
}

// Register the given metric under the given name.  Returns a DuplicateMetric
// if a metric by the given name is already registered.
func Register(name string, i interface{}) error {
	return DefaultRegistry.Register(name, i)
}

// Register the given metric under the given name.  Panics if a metric by the
// given name is already registered.
func MustRegister(name string, i interface{}) {
	if err := Register(name, i); err != nil {
		panic(err)
	}
}

// Run all registered healthchecks.
func RunHealthchecks() {
	DefaultRegistry.RunHealthchecks()
}

// Unregister the metric with the given name.
func Unregister(name string) {
	DefaultRegistry.Unregister(name)
}
