// Added to package runtime by the /verif simulation overlay (never part of a shipped build).
//
// simMode is switched on by the SIMRT environment variable at process start (see the
// proc.go patch in schedinit). With a seed installed (simSetSelectSeed, called as the first
// statement inside the synctest bubble) every scheduling decision that the stock runtime
// takes from per-M fast random state or from real time is taken from one xorshift stream:
//
//   - select poll order (select.go)
//   - tie-break between fake timers with equal deadlines (time.go)
//   - which runnable bubble goroutine runs next (proc.go findRunnable -> simPickRunq)
//
// runtime.rand() (math/rand top-level functions, map seeds, ...) is served from a second
// stream for bubble goroutines, so user-visible randomness never perturbs scheduling.
package runtime

import "unsafe"

var simSelectState uint64
var simMode bool
var simDrawN uint64

//go:linkname simDraws
func simDraws() uint64 { return simDrawN }

func simNote(kind, n uint32) {
	if kind == 3 { // only seeded draws count: non-bubble (runtime helper) picks vary with real time
		simDrawN++
	}
}

//go:linkname simSetSelectSeed
func simSetSelectSeed(s uint64) {
	if s == 0 {
		s = 0x9e3779b97f4a7c15
	}
	simSelectState = s
	// the user stream is seeded here, not at first use: when it is first used must not matter
	simUserState = s ^ 0x9e3779b97f4a7c15
	if simUserState == 0 {
		simUserState = 1
	}
}

// simGetLabel / simSetLabel give the harness a goroutine-inherited pointer (it reuses the
// pprof label slot, which newproc1 copies to child goroutines). The simulated network and
// disk use it to know which simulated host the calling goroutine belongs to.
//
//go:linkname simGetLabel
func simGetLabel() unsafe.Pointer { return getg().labels }

//go:linkname simSetLabel
func simSetLabel(p unsafe.Pointer) { getg().labels = p }

//go:linkname simGoid
func simGoid() uint64 { return getg().goid }

func simSelectRandn(n uint32) uint32 {
	if simSelectState == 0 || getg().bubble == nil {
		return cheaprandn(n)
	}
	simNote(1, n)
	x := simSelectState
	x ^= x << 13
	x ^= x >> 7
	x ^= x << 17
	simSelectState = x
	return uint32((uint64(uint32(x>>32)) * uint64(n)) >> 32)
}

func simRand64() uint64 {
	if simSelectState == 0 {
		return uint64(cheaprand())
	}
	x := simSelectState
	x ^= x << 13
	x ^= x >> 7
	x ^= x << 17
	simSelectState = x
	return x
}

// simPickRunq makes the next runqget(pp) return a seeded-random runnable G.
// Only valid with GOMAXPROCS=1 (no stealers).
func simPickRunq(pp *p) {
	// Pull everything from the global queue into the local ring.
	if !sched.runq.empty() {
		lock(&sched.lock)
		for !sched.runq.empty() && pp.runqtail-pp.runqhead < uint32(len(pp.runq))-1 {
			gp := sched.runq.pop()
			pp.runq[pp.runqtail%uint32(len(pp.runq))].set(gp)
			pp.runqtail++
		}
		unlock(&sched.lock)
	}
	// Move runnext into the ring.
	if next := pp.runnext; next != 0 && pp.runqtail-pp.runqhead < uint32(len(pp.runq)) {
		pp.runnext = 0
		pp.runq[pp.runqtail%uint32(len(pp.runq))] = next
		pp.runqtail++
	}
	n := pp.runqtail - pp.runqhead
	if n < 2 {
		return
	}
	L := uint32(len(pp.runq))
	// Non-bubble goroutines (runtime helpers, test main) run first and consume no randomness.
	for k := uint32(0); k < n; k++ {
		if pp.runq[(pp.runqhead+k)%L].ptr().bubble == nil {
			simNote(4, n)
			simRunqToFront(pp, k)
			return
		}
	}
	simNote(3, n)
	simRunqToFront(pp, uint32(simRand64()>>33)%n)
}

// simRunqToFront moves the k-th queued G to the head, preserving the order of the others.
func simRunqToFront(pp *p, k uint32) {
	L := uint32(len(pp.runq))
	h := pp.runqhead
	g := pp.runq[(h+k)%L]
	for m := k; m > 0; m-- {
		pp.runq[(h+m)%L] = pp.runq[(h+m-1)%L]
	}
	pp.runq[h%L] = g
}

var simUserState uint64

//go:nosplit
func simUserRand() uint64 {
	x := simUserState
	x ^= x << 13
	x ^= x >> 7
	x ^= x << 17
	simUserState = x
	return x
}
