#!/bin/bash
# Builds the verification framework from files on disk only (offline).
# Exit 2 on any trouble: a broken harness must never look like a property violation.
set -u
cd "$(dirname "$0")"
V=$(pwd)
export GOFLAGS=-mod=mod GOPROXY=off GOTOOLCHAIN=local CGO_ENABLED=1
GOROOT_SIM=/opt/veriftools/go1.26.8
GO=$GOROOT_SIM/bin/go
fail() { echo "setup: $*" >&2; exit 2; }
[ -x "$GO" ] || fail "missing toolchain $GO"
# 1. runtime patch: verify the GOROOT files are the ones the diffs were made against
( cd / && sha256sum -c --quiet "$V/sim/rtpatch/GOROOT.sha256" ) || fail "GOROOT runtime sources differ from the patched baseline"
mkdir -p "$V/.build/rt" "$V/bin"
: > "$V/.build/rt/files.txt"
# <GOROOT-relative source> <diff> <patched file name>
while read -r src diff out; do
  cp "$GOROOT_SIM/$src" "$V/.build/rt/$out" || fail "copy $src"
  patch -s -p0 "$V/.build/rt/$out" < "$V/sim/rtpatch/$diff" || fail "patch $src"
  echo "$src $out" >> "$V/.build/rt/files.txt"
done <<'LIST'
src/runtime/proc.go proc.diff proc.go
src/runtime/select.go select.diff select.go
src/runtime/time.go time.diff time.go
src/runtime/rand.go rand.diff rand.go
src/runtime/runtime2.go runtime2.diff runtime2.go
src/runtime/sema.go sema.diff sema.go
src/context/context.go context.diff context.go
src/math/rand/rand.go mathrand.diff mathrand.go
src/math/rand/v2/rand.go mathrandv2.diff mathrandv2.go
LIST
cp "$V/sim/rtpatch/zz_sim.go" "$V/.build/rt/zz_sim.go"
echo "src/runtime/zz_sim.go zz_sim.go" >> "$V/.build/rt/files.txt"
# 2. tools
( cd "$V/cmd" && "$GO" build -o "$V/bin/simgen" ./simgen && "$GO" build -o "$V/bin/vcheck" ./vcheck ) || fail "tool build failed"
echo "setup: ok"
