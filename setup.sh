#!/bin/bash
# Builds the verification framework from files on disk only (offline).
# Exit 2 on any trouble: a broken harness must never look like a property violation.
set -u
cd "$(dirname "$0")"
V=$(pwd)
export GOFLAGS=-mod=mod GOPROXY=off GOTOOLCHAIN=local CGO_ENABLED=1
GOROOT_SIM=/opt/veriftools/go1.26.8
GO=$GOROOT_SIM/bin/go
fail() { echo "setup: $*" >&2; exit 2; }
[ -x "$GO" ] || fail "missing toolchain $GO"
# 1. runtime patch: verify the GOROOT files are the ones the diffs were made against
( cd / && sha256sum -c --quiet "$V/sim/rtpatch/GOROOT.sha256" ) || fail "GOROOT runtime sources differ from the patched baseline"
mkdir -p "$V/.build/rt" "$V/bin"
for f in proc select time rand runtime2; do
  cp "$GOROOT_SIM/src/runtime/$f.go" "$V/.build/rt/$f.go" || fail "copy $f.go"
  patch -s -p0 "$V/.build/rt/$f.go" < "$V/sim/rtpatch/$f.diff" || fail "patch $f.go"
done
cp "$V/sim/rtpatch/zz_sim.go" "$V/.build/rt/zz_sim.go"
# 2. tools
( cd "$V/cmd" && "$GO" build -o "$V/bin/simgen" ./simgen && "$GO" build -o "$V/bin/vcheck" ./vcheck ) || fail "tool build failed"
echo "setup: ok"
