#!/bin/bash
# run1.sh <scenario> <seed> [extra env...]  — one simulation run, result JSON to stdout
B=$(/verif/build.sh) || exit 2
SC=$1; SEED=$2; shift 2
env SIMRT=1 GOMAXPROCS=1 GOGC=off SIM_SCENARIO=$SC SIM_SEED=$SEED "$@" timeout 300 $B/sim.test -test.run '^TestSim$' -test.timeout 0
