#!/usr/bin/env python3
# Regenerates MANIFEST.json from the table below (kept in one place so that the claimed
# checks, their levels and the not_applicable list cannot drift apart).
import json
props=[json.loads(l) for l in open('/verif/properties.jsonl')]
ids=[p['id'] for p in props]
LEVEL_NOTE_COMMON=("Trusted base: the go1.26.8 runtime patched at build time (seeded scheduler, select order, timer ties; "
 "synctest fake clock), simnet/simfs/refbt harness code, real bbolt on /dev/shm (commit atomic w.r.t. simulated crash points), DHT replaced by a recording stub. "
 "A clean batch is evidence over the sampled plans/seeds, not proof.")
CHECKS={
 "C01":dict(tech="deterministic simulation: seeded search over plans x schedules x faults (byzantine peers, faulty web seeds, stop/start, slow disk) with online disk-write / claim oracles against ground-truth content",
   text="Every simulated disk write, every have/bitfield sent to a scripted peer, every Stats() sample and the completion event are checked online against the generator's ground-truth bytes, in thousands of seeded runs with corrupting/duplicating/unrequested/out-of-range/truncating peers and web seeds and stop/start commands interleaved by a seeded scheduler. Exploration is the right level: the property quantifies over unbounded histories and schedules.",
   ref="DESIGN.md 5 C01", note="Ban/not-reused clause is checked only in unambiguous histories. "+LEVEL_NOTE_COMMON),
 "C10":dict(tech="deterministic simulation: bounded liveness after faults stop (fake clock), seeded layouts/knobs/actors/fault schedules, real rain session vs scripted honest and byzantine sources",
   text="Whole downloads are simulated (layouts with padding/empty files/odd sizes, both picker modes, encryption settings, .torrent and magnet, peers and web seeds) with byzantine peers and network faults until a plan-chosen instant; after it an honest re-dialling full source exists and completion with correct files is demanded within a generous fake-time bound. Exploration is the right level for a liveness property over all layouts, configurations and fault schedules.",
   ref="DESIGN.md 5 C10", note="Liveness bound is 30 min (clean) / 2 h (after faults) of fake time; the honest source re-dials so that reachability is real. "+LEVEL_NOTE_COMMON),
 "C03":dict(tech="deterministic simulation: SUT seeds from a simulated disk through the real read cache; scripted leechers issue generated request histories; every received block checked against ground truth",
   text="A real session seeds (after verifying pre-placed data, possibly partial) while 1-5 scripted leechers send generated requests: aligned, unaligned, crossing read-cache-block multiples, zero-length, over-long, overflowing, out-of-range, for missing pieces, while choked, duplicated and cancelled, under randomised cache block size/capacity/TTL, parallel reads, queue limits, disk read errors and connection resets. Every block received is compared with the requested range of the ground-truth piece; invalid requests must never be answered with data; data while choked only for allowed-fast pieces (FIFO stream reasoning).",
   ref="DESIGN.md 5 C03", note="All 2^96 request triples are sampled with boundary bias, not enumerated. "+LEVEL_NOTE_COMMON),
 "C09":dict(tech="deterministic simulation: every request received by scripted peers checked against the peer's own advertised/choke/allowed-fast/have view under seeded event histories; availability counter compared with settled peers",
   text="In the transfer worlds each scripted peer checks every request it receives: piece advertised by it, not announced by the SUT earlier on the same stream, not while choking unless allowed-fast (choke known to be consumed by the SUT via transport marks), all outstanding requests of one piece, queue length within the configured limits; the monitor compares Stats().Pieces.Available with the pieces advertised by settled connected peers. Histories (have/bitfield, choke flapping, allowed-fast, snubs, disconnects, hash failures, web-seed faults, both picker modes, end-game limits) come from seeded plans.",
   ref="DESIGN.md 5 C09", note="Web-seed range overlap and the sequential-order clause are checked only through their wire consequences so far; the component-level picker model is not built yet. "+LEVEL_NOTE_COMMON),
 "C11":dict(tech="deterministic simulation: strict independent decoder on every byte the SUT emits under PRNG fragmentation; socket tap vs upload counter",
   text="Every byte a real session writes to a scripted peer (handshake, core, fast, extension handshake, ut_metadata, PEX) is parsed by a from-scratch strict decoder under seeded fragmentation and read chunking in all transfer and seeding runs; the upload counter is compared after quiescence with piece payload bytes counted by a tap on the simulated sockets.",
   ref="DESIGN.md 5 C11", note="Known finding F06 (upload counter undercount at connection close) is listed in known_findings.json and reported as KNOWN-FINDING. rain->rain round trip through rain's own reader is not yet exercised. "+LEVEL_NOTE_COMMON),
 "C04":dict(tech="deterministic simulation: seeded command sequences and external file mutations against a real session with a reference model of allowed effects; process-level crash/hang detection",
   text="One torrent of a real session is driven by generated command histories with zero-to-minutes gaps (commands land during Allocating/Verifying/Stopping and while piece writes or stop announces are in flight because disk and tracker latencies are stretched), files are corrupted/truncated/deleted at Stopped points, and a re-dialling honest seed is reachable. Checked: no panic or hang (any crash of the process is a violation), every API call returns, Stop reaches Stopped within the tracker stop timeout (+ simulated disk latency), Start takes effect, Verify ends Stopped with the bitfield equal to the disk, status samples are truthful (Seeding / Stopped / completed bytes), final Start converges to correct files.",
   ref="DESIGN.md 5 C04", note="Silent same-size content corruption cannot be detected without re-hashing: such pieces are excluded from truthfulness until a verification (weakest sound reading). "+LEVEL_NOTE_COMMON),
 "C05":dict(cat="fault_enumeration", tech="deterministic simulation with crash injection: durable-image snapshots of the simulated disk + resume DB copies at write gates, restart of a fresh session on the image, claims vs surviving bytes",
   text="The real filestorage code runs on a simulated disk with a durability model (O_SYNC writes durable at return, others volatile, torn in-flight sectors). At seed-chosen gates of piece writes (begin/mid/end) and at command points the world takes the durable image and a copy of the bbolt file, optionally deletes files from the image, boots a second session on them and checks through an observer peer and Stats that no piece is counted as held unless it is complete and correct in the surviving files, that the DB opens, and that the download then completes.",
   ref="DESIGN.md 5 C05", note="Crashes inside a bbolt commit are not explored (commit is atomic w.r.t. simulated scheduling; bbolt's own atomicity is trusted). File-size metadata is treated as durable. "+LEVEL_NOTE_COMMON),
 "C15":dict(tech="deterministic simulation: scripted HTTP/UDP trackers record every raw announce of real sessions under generated reply scripts, faults and commands; online per-announce oracles",
   text="Real sessions announce to scripted HTTP (net/http on the simulated network) and UDP (BEP 15) trackers. Each received announce is checked against the torrent's info-hash, listening port, the peer id seen by a scripted peer in the handshake, counter sanity, and the per-tracker per-run event discipline (first = started, completed at most once and only with left=0, stopped only after an accepted announce); spacing after a successful reply is checked against min(positive interval, positive min interval, client minimum) with transport slack (for UDP only sub-second storms, because the connect exchange hides the client's send time).",
   ref="DESIGN.md 5 C15", note="Counters are checked for sanity (ranges, left=0 at completed), not for equality with Stats() at the exact send instant. "+LEVEL_NOTE_COMMON),
 "C16":dict(tech="deterministic simulation: hours of fake time against tiers of scripted trackers with failure patterns, shared UDP tracker, reply fuzz; history oracles over the announce logs",
   text="Tier fail-over is judged from the trackers' logs: after a failure the client saw, the next announce goes to another member, a working member keeps being used, every window of tier-size consecutive failures covers all members; each tier of a running torrent is contacted again within the back-off bound (tracker-directed waits honoured, lossy UDP excluded); replies (garbage, oversize, wrong transaction id, short, duplicate, error) never crash the client, are never read beyond the configured limit (transport byte counts per reply) and a reply under another transaction id is never used (its address is never dialled).",
   ref="DESIGN.md 5 C16", note="Order rules are evaluated on HTTP-only tiers (the client-observed outcome is unknowable from a UDP tracker under loss/retransmission). "+LEVEL_NOTE_COMMON),
}
NA_REASON="check not built yet in this session (simulation scenario planned in DESIGN.md section 5; will be claimed once it runs clean on the unchanged tree)"
m={"version":1,"setup_cmd":"./setup.sh",
 "hooks":{"guard":"none: instrumentation is applied at build time with `go build -overlay` (rewritten copies of /repo's current working tree + patched GOROOT runtime files); nothing is committed to /repo except `fix:` commits",
  "enable":"./build.sh (bin/simgen writes overlay.json from /repo's working tree; go1.26.8 test -c -overlay -modfile)",
  "baseline_off_cmd":"cd /repo && GOFLAGS=-mod=mod GOPROXY=off go test -vet=off -count=1 ./...",
  "source_commits":[],"add_only":True},
 "engines":[{"name":"vsim","path":"/verif/sim","serves_properties":sorted(CHECKS),"kind_free_text":"deterministic whole-system simulator for Go: patched runtime (seeded scheduler) + synctest clock + simnet + simfs + scripted BitTorrent actors; runner cmd/vcheck (seeded search, minimiser, replay, evidence)"}],
 "checks":[],"notes":"See DESIGN.md. known_findings.json lists fixed and open findings.","not_applicable":[]}
for pid in ids:
    if pid in CHECKS:
        c=CHECKS[pid]
        m["checks"].append({"property_id":pid,"quick_cmd":f"./bin/vcheck {pid} --tier quick","thorough_cmd":f"./bin/vcheck {pid} --tier thorough",
          "evidence_file":f"/verif/evidence/{pid}.json","replay_cmd_template":"./bin/vcheck --replay {path}","engine":"vsim",
          "level_claimed":{"category":c.get("cat","exploration"),"text":c["text"],"design_ref":c["ref"]},"level_note":c["note"],"technique":c["tech"]})
    else:
        m["not_applicable"].append({"property_id":pid,"reason":NA_REASON})
json.dump(m,open('/verif/MANIFEST.json','w'),indent=1)
print("checks:",[c['property_id'] for c in m['checks']])
