#!/usr/bin/env python3
"""Regenerate the findings table (section 10) and the seeded-change table (section 12) of
DESIGN.md from known_findings.json and seeded/*/meta.json."""
import json, glob, os, re
os.chdir(os.path.dirname(os.path.dirname(os.path.abspath(__file__))))
s = open('DESIGN.md').read()
F = json.load(open('known_findings.json'))
def esc(x): return str(x).replace('|', '\\|').replace('\n', ' ')
rows = ['| id | prop | fix commit | what failed | first found by |', '|---|---|---|---|---|']
for f in F:
    rows.append('| %s | %s | %s | %s | %s |' % (f['id'], f['property'], f.get('commit', 'open'), esc(f['what']), esc(f.get('found_by', ''))))
s, n = re.subn(r'\| id \| prop \| fix commit \|.*?\n(?=\n)', (lambda m, r='\n'.join(rows) + '\n': r), s, count=1, flags=re.S)
assert n == 1
s = re.sub(r'\*\*\d+ genuine defects of rain were found and repaired\*\*', '**%d genuine defects of rain were found and repaired**' % len([f for f in F if f['status'] == 'fixed']), s)
rows = ['| seeded change (`/verif/seeded/<id>/`) | prop | change | needs | outcome |', '|---|---|---|---|---|']
tot = at_once = 0
for m in sorted(glob.glob('seeded/*/meta.json')):
    d = json.load(open(m)); tot += 1
    if d['checks'].startswith('caught'): at_once += 1
    rows.append('| `%s` | %s | %s | %s | %s |' % (m.split('/')[1], d['property'], esc(d['change']), esc(d['needs']), esc(d['checks'])))
s, n = re.subn(r'\| seeded change \(`/verif/seeded/<id>/`\) \|.*?\n(?=\n)', (lambda m, r='\n'.join(rows) + '\n': r), s, count=1, flags=re.S)
assert n == 1
s = re.sub(r'\d+ changes so far; \d+ were caught at once, \d+ were missed\s+at first', '%d changes so far; %d were caught at once, %d were missed\nat first' % (tot, at_once, tot - at_once), s)
s = re.sub(r'all \d+ are caught now', 'all %d are caught now' % tot, s)
open('DESIGN.md', 'w').write(s)
print(len(F), 'findings;', tot, 'seeded changes,', at_once, 'caught at once')
