#!/bin/bash
# mutrun.sh <seeded-id> <budget> <prop>... : apply a stored seeded change to /repo, run checks, revert.
cd /verif; S=/verif/seeded/$1; BUDGET=$2; shift 2
git -C /repo apply $S/patch.diff || exit 2
for p in "$@"; do
  echo "-- $p"; GOTOOLCHAIN=local GOFLAGS=-mod=mod GOPROXY=off ./bin/vcheck $p --tier quick --budget $BUDGET 2>&1 | grep -v "^  " | tail -5; echo "exit=${PIPESTATUS[0]}"
done
git -C /repo checkout -- .
git -C /repo status --short | head
