#!/bin/bash
# racesweep.sh <from> <to> <scenario>... : run scenarios under the race build, list distinct race keys
B=$(/verif/build.sh race) || exit 2
FROM=$1; TO=$2; shift 2
mkdir -p /dev/shm/rs; rm -f /dev/shm/rs/*
for sc in "$@"; do for s in $(seq $FROM $TO); do echo "$sc $s"; done; done | xargs -P 16 -L 1 bash -c 'GORACE="log_path=/dev/shm/rs/rl-$0-$1 halt_on_error=0 exitcode=0 history_size=4" SIMRT=1 GOMAXPROCS=1 GOGC=off SIM_SCENARIO=$0 SIM_SEED=$1 SIM_OUT=/dev/shm/rs/$0-$1.json timeout 600 '$B'/sim.race.test -test.run "^TestSim$" >/dev/null 2>/dev/shm/rs/$0-$1.err || echo "exit $? $0 $1"'
python3 - <<'PY'
import json,glob,collections
c=collections.Counter(); ex={}
for f in glob.glob('/dev/shm/rs/*.json'):
    d=json.load(open(f))
    if d.get('harness_error'): c['HARNESS '+d['harness_error'][:200]]+=1
    for v in d.get('violations') or []:
        k=v['property']+' '+v['oracle']+' '+(v['detail'][:260] if v['oracle']=='race' else '')
        c[k]+=1; ex.setdefault(k,f)
for k,v in c.most_common(): print(v,k,'|',ex.get(k,'').split('/')[-1])
PY
