#!/bin/bash
# mutcheck.sh <worktree-id> <seeded-id> <budget> <prop>... : verify a sub-agent's seeded change and run checks against it.
# 1. in /tmp/mut/<id>: split bug patch (tracked changes) from demo (untracked files); 2. demo fails with / passes without;
# 3. existing tests pass with the bug; 4. apply to /repo, run vcheck for each prop, revert.
set -u
export GOFLAGS=-mod=mod GOPROXY=off
W=/tmp/mut/$1; S=/verif/seeded/$2; BUDGET=$3; shift 3
mkdir -p $S
cd $W || exit 2
git diff > $S/patch.diff
[ -s $S/patch.diff ] || { echo "empty patch"; exit 2; }
demos=$(git ls-files --others --exclude-standard)
echo "demo files: $demos"
for f in $demos; do mkdir -p $S/demo/$(dirname $f); cp $f $S/demo/$f; done
pkgs=$(for f in $demos; do echo ./$(dirname $f); done | sort -u)
echo "== demo with bug"; go test -vet=off -count=1 -run 'Demo' $pkgs 2>&1 | tail -5
git apply -R $S/patch.diff
echo "== demo without bug"; go test -vet=off -count=1 -run 'Demo' $pkgs 2>&1 | tail -5
git apply $S/patch.diff
echo "== existing suite with bug (demo removed)"
for f in $demos; do mv $f /tmp/mut/.hold_$(basename $f); done
go build ./... && go test -vet=off -count=1 ./... 2>&1 | grep -a -v "^ok\|no test files" | grep -a -- "--- FAIL\|^FAIL\|panic" | head -20
for f in $demos; do mv /tmp/mut/.hold_$(basename $f) $f; done
echo "== checks against the change"
cd /verif
git -C /repo apply $S/patch.diff || exit 2
for p in "$@"; do
  echo "-- $p"; GOTOOLCHAIN=local ./bin/vcheck $p --tier quick --budget $BUDGET 2>&1 | grep -v "^  " | tail -6; echo "exit=${PIPESTATUS[0]}"
done
git -C /repo checkout -- .
git -C /repo status --short | head
