#!/bin/bash
# sweep.sh <from> <to> <tier> <scenario>... : big false-alarm sweep on the unchanged tree
B=$(/verif/build.sh) || exit 2
FROM=$1; TO=$2; TIER=$3; shift 3
for SC in "$@"; do
  D=/dev/shm/sweep/$SC; rm -rf $D; mkdir -p $D
  seq $FROM $TO | xargs -P 16 -I{} bash -c "SIMRT=1 GOMAXPROCS=1 GOGC=off SIM_TIER=$TIER SIM_SCENARIO=$SC SIM_SEED={} SIM_OUT=$D/{}.json timeout 900 $B/sim.test -test.run '^TestSim\$' > $D/{}.log 2>&1 || echo 'exit '\$?' {}' >> $D/_exits"
  python3 - "$SC" "$D" <<'PY'
import json,glob,sys,collections,os
sc,d=sys.argv[1],sys.argv[2]
c=collections.Counter(); ex={}
n=0
for f in glob.glob(d+'/*.json'):
    n+=1
    r=json.load(open(f))
    if r.get('harness_error'): c['HARNESS '+r['harness_error'][:100]]+=1; ex.setdefault('HARNESS '+r['harness_error'][:100],f)
    for v in (r.get('violations') or [])[:1]:
        k=v['property']+'/'+v['oracle']; c[k]+=1; ex.setdefault(k,f)
exits=open(d+'/_exits').read().split('\n') if os.path.exists(d+'/_exits') else []
print(sc, 'runs',n,'exits',len([e for e in exits if e]), dict(c), {k:os.path.basename(v) for k,v in ex.items()})
for f in glob.glob(d+'/*.json'):
    r=json.load(open(f))
    if not r.get('violations') and not r.get('harness_error'): os.remove(f); os.remove(f[:-5]+'.log')
PY
done
