cd /verif
for d in $(ls -tr seeded); do
  p=$(python3 -c "import json;print(json.load(open('seeded/$d/meta.json'))['property'])")
  b=45s; [ "$p" = "C20" ] && b=150s
  if ! git -C /repo apply --check /verif/seeded/$d/patch.diff 2>/dev/null; then echo "$d $p APPLY-FAIL"; continue; fi
  out=$(./tools/mutrun.sh $d $b $p 2>&1 | grep -a "exit=\|quick:" | tr '\n' ' ' | cut -c1-160)
  echo "$d $p $out"
done
echo ALLDONE
