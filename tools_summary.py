import json,glob,collections,sys
pat=sys.argv[1]
c=collections.Counter()
shown=collections.Counter()
for f in sorted(glob.glob(pat)):
    try: r=json.load(open(f))
    except Exception as e:
        c['NORESULT']+=1; 
        if shown['NORESULT']<3: print(f,'no result'); shown['NORESULT']+=1
        continue
    if r.get('harness_error'): c['HARNESS '+r['harness_error'][:80]]+=1
    vs=r.get('violations') or []
    for v in vs[:1]:
        k=v['property']+' '+v['oracle']
        c[k]+=1
        if shown[k]<2: print(f, v['detail'][:400]); shown[k]+=1
    if not vs: c['ok']+=1
for k,v in c.most_common(): print(v,k)
